package main

import (
	"fmt"
	"go/token"
	"strings"

	"golang.org/x/tools/go/ssa"
)

func init() { rules["C14"] = ruleC14 }

// datapathCalls lists invokes of a method of the repo's datapath interface inside fn.
func datapathCalls(fn *ssa.Function, method string) []*ssa.Call {
	var out []*ssa.Call
	allInstrs(fn, func(i ssa.Instruction) {
		c, ok := i.(*ssa.Call)
		if !ok || !c.Call.IsInvoke() || c.Call.Method.Name() != method {
			return
		}
		if !strings.HasSuffix(typeName(c.Call.Value.Type()), "pfcpiface.datapath") {
			return
		}
		out = append(out, c)
	})
	return out
}

// sendMsgMethod returns the constant upfMsgType of a SendMsgToUPF invoke (-1 if not constant).
func sendMsgMethod(c *ssa.Call) int64 {
	if len(c.Call.Args) < 1 {
		return -1
	}
	if k, ok := constInt(c.Call.Args[0]); ok {
		return k
	}
	return -1
}

// notRejectedEdge: edge a→b establishes cause != CauseRequestRejected for the given cause value.
func causeEdge(a, b *ssa.BasicBlock, cause ssa.Value, rejected int64, wantRejected bool) bool {
	x, op, y, ok := edgeFact(a, b)
	if !ok {
		return false
	}
	var other ssa.Value
	if x == cause {
		other = y
	} else if y == cause {
		other = x
	} else {
		return false
	}
	k, isK := constInt(other)
	if !isK || k != rejected {
		return false
	}
	if wantRejected {
		return op == token.EQL
	}
	return op == token.NEQ
}

func ruleC14(w *World, r *Report) {
	const P = "C14"
	r.Explanation = "R14.1 the FAR handed to addEndMarker in UpdateFAR has provenance 'element of the session's stored fars', never the incoming FAR, is guarded by the send-end-marker flag and the FAR-id match, happens before the stored element is overwritten and at most once per path; " +
		"R14.2 addEndMarker's only caller is UpdateFAR and SendEndMarkers' only caller is the modification handler; R14.3 the flag is set only under the SNDEM bit of PFCPSMReqFlags (bit mask evaluated exhaustively over uint8), reset before parsing, and Update Forwarding Parameters are read only for the update operation; " +
		"R14.4 emission is dominated by the not-rejected branch of SendMsgToUPF(modify) and by enableEndMarker, the list is function-local; R14.5 packet literal field mapping (IPv4 src/dst, UDP 2152, GTP TEID, message type 254) from the argument FAR."
	r.Explanation += " R14.7 wherever endMarkerChan is assigned the consumer goroutine is started in the same function, and the consumer loops have no exit other than a closed channel."
	r.Explanation += " R14.8 bit 2 of the flags octet is examined on every path after the octet was read; R14.9 UpdateFAR is called only with FARs parsed from Update FAR IEs."
	r.Explanation += " R14.1 (cont.) every tunnel argument of addEndMarker comes from the stored FAR; what counts for the overwrite is where the stored element is read; R14.10 = C17 R17.6; R14.11 endMarkerSocket / notifyBessSocket are dialled at EndMarkerSockAddr|PfcpAddr / NotifySockAddr|SockAddr."
	r.NotDecided = "the serialised bytes (gopacket); that the datapath actually transmits the packet"
	upd := w.Fn(P, "pfcpiface.(*PFCPSession).UpdateFAR")
	aem := w.Fn(P, "pfcpiface.addEndMarker")
	mod := w.Fn(P, "pfcpiface.(*PFCPConn).handleSessionModificationRequest")
	parseFAR := w.Fn(P, "pfcpiface.(*far).parseFAR")
	cg := w.CG()
	uname := w.FuncName(upd)

	// R14.2 who may call
	{
		var callers []string
		for _, e := range cg.callersOf(aem) {
			callers = append(callers, w.FuncName(e.Caller))
		}
		r.check(len(callers) == 1 && callers[0] == uname, "R14.2", w.FuncName(aem), "callers of addEndMarker", w.Pos(aem.Pos()), strings.Join(callers, ","),
			"addEndMarker is called from "+strings.Join(callers, ",")+" (only UpdateFAR may create end markers)")
		// no path from the create operations
		for _, n := range []string{"pfcpiface.(*PFCPSession).CreateFAR", "pfcpiface.(*PFCPConn).handleSessionEstablishmentRequest", "pfcpiface.(*PFCPConn).handleSessionDeletionRequest"} {
			f := w.Fn(P, n)
			reachAEM := cg.Reachable([]*ssa.Function{f}, nil)[aem]
			r.check(!reachAEM, "R14.2", n, "does not reach addEndMarker", w.Pos(f.Pos()), "unreachable in call graph", n+" can create an end marker")
		}
	}

	// R14.1
	calls := callsTo(upd, aem)
	r.floor("R14.1 addEndMarker call sites in UpdateFAR", len(calls), 1)
	isAEM := func(i ssa.Instruction) bool {
		c, ok := i.(ssa.CallInstruction)
		return ok && staticCallee(c) == aem
	}
	for k, c := range calls {
		tag := fmt.Sprintf("addEndMarker call #%d", k+1)
		pos := w.Pos(c.Pos())
		// every argument that describes the tunnel (the FAR itself, or its fields handed over one by one) comes
		// from the stored, old FAR; the last argument is the caller's list
		args := c.Common().Args
		s := symOf(args[0])
		for ai := 0; ai+1 < len(args); ai++ {
			s = symOf(args[ai])
			fields := s.Fields()
			fromStored := len(fields) > 0
			for _, f := range fields {
				if !strings.HasPrefix(f, "PFCPSession.") || !strings.Contains(f, ".fars") {
					fromStored = false
				}
			}
			if !strings.Contains(s.String(), "fars[]") {
				fromStored = false
			}
			r.check(fromStored, "R14.1", uname, tag+ifelse(len(args) > 2, fmt.Sprintf(" argument %d", ai+1), " argument")+" is the stored (old) FAR", pos, s.String(), "end marker is built from "+s.String()+" instead of the stored FAR")
		}
		// last argument is the caller's list
		r.check(len(upd.Params) == 3 && args[len(args)-1] == upd.Params[2], "R14.1", uname, tag+" appends to the caller's list", pos, "param endMarkerList", "end marker is appended to another list")
		// guarded by f.sendEndMarker == true
		instr := c.(ssa.Instruction)
		flagGuard := onlyVia(upd, instr, func(a, b *ssa.BasicBlock) bool {
			v, truth, ok := boolEdge(a, b)
			if !ok || !truth {
				return false
			}
			return symOf(v).String() == "far.sendEndMarker"
		})
		r.check(flagGuard, "R14.1", uname, tag+" guarded by f.sendEndMarker", pos, "dominated by the true edge", "end marker created without the send-end-marker flag")
		idGuard := onlyVia(upd, instr, func(a, b *ssa.BasicBlock) bool {
			x, op, y, ok := edgeFact(a, b)
			if !ok || op != token.EQL {
				return false
			}
			sx, sy := symOf(x).String(), symOf(y).String()
			return (sx == "far.farID" && strings.HasSuffix(sy, "fars[].farID")) || (sy == "far.farID" && strings.HasSuffix(sx, "fars[].farID"))
		})
		r.check(idGuard, "R14.1", uname, tag+" guarded by FAR-id match", pos, "dominated by stored.farID == f.farID", "end marker created for a FAR whose id does not match")
		// not preceded by an overwrite of the stored element
		// (what counts is where the stored element is read: a copy taken before the overwrite — the range
		// variable — still holds the old tunnel afterwards)
		readAt := instr
		if ld, ok := c.Common().Args[0].(*ssa.UnOp); ok && ld.Op == token.MUL {
			if cell, isCell := ld.X.(*ssa.Alloc); isCell {
				// the range variable spilled into a local: written once, from the element
				if st := singleStore(cell); st != nil {
					if l2, ok := st.Val.(*ssa.UnOp); ok && l2.Op == token.MUL {
						ld = l2
					}
				}
			}
			if ia, ok := ld.X.(*ssa.IndexAddr); ok && strings.HasSuffix(symOf(ia.X).String(), ".fars") {
				readAt = ld
			}
		}
		var overwrite ssa.Instruction
		allInstrs(upd, func(i ssa.Instruction) {
			if st, ok := i.(*ssa.Store); ok {
				if ia, ok := st.Addr.(*ssa.IndexAddr); ok && strings.HasSuffix(symOf(ia.X).String(), ".fars") {
					if reach(upd, i, func(j ssa.Instruction) bool { return j == readAt }, nil, nil) != nil {
						overwrite = i
					}
				}
			}
		})
		r.check(overwrite == nil, "R14.1", uname, tag+" precedes the overwrite of the stored FAR", pos, "no store into s.fars[] reaches the call", "the stored FAR is overwritten before the end marker is built from it")
		// (⇒) once the id matches and the flag is set, the call happens: no further condition may suppress it
		for _, b := range upd.Blocks {
			for _, sc := range b.Succs {
				v, truth, ok := boolEdge(b, sc)
				if !ok || !truth || symOf(v).String() != "far.sendEndMarker" {
					continue
				}
				// from the flag's true edge every path to an exit executes the call
				if len(sc.Instrs) == 0 {
					continue
				}
				var first ssa.Instruction = sc.Instrs[0]
				skipped := isAEM(first) == false && reach(upd, first, isReturn, isAEM, nil) != nil
				if isAEM(first) {
					skipped = false
				}
				r.check(!skipped, "R14.1", uname, tag+" follows from flag ∧ id match alone", pos, "every path from the flag's true edge reaches the call", "with the flag set and the id matching, a further condition can still suppress the end marker")
			}
		}
		// at most one per path
		again := reach(upd, instr, isAEM, nil, nil)
		r.check(again == nil, "R14.1", uname, tag+" at most once per path", pos, "no second call reachable", "a second end marker can be created on the same path")
	}
	// after a match the function returns (first match only): a return is reached from the id-match edge without going round the loop
	// (covered by 'at most once per path' above)

	// R14.3 flag parsing
	pname := w.FuncName(parseFAR)
	has2 := w.Fn(P, "pfcpiface.has2ndBit")
	{
		tt, ok := evalUint8Predicate(has2)
		if !ok {
			brokenf(P, "R14.3", "has2ndBit is no longer a pure uint8 predicate the rule can evaluate")
		}
		good := true
		for v := 0; v < 256; v++ {
			if tt[v] != (v&0x02 != 0) {
				good = false
			}
		}
		r.check(good, "R14.3", w.FuncName(has2), "has2ndBit(f) ⇔ f&0x02 != 0 for all 256 values", w.Pos(has2.Pos()), "exhaustive evaluation of the extracted expression", "has2ndBit does not test bit 2 (SNDEM)")
	}
	var trueStores, falseStores, computedStores, orStores []*ssa.Store
	allInstrs(parseFAR, func(i ssa.Instruction) {
		st, ok := i.(*ssa.Store)
		if !ok {
			return
		}
		fa, ok := st.Addr.(*ssa.FieldAddr)
		if !ok || fieldVar(fa) == nil || fieldVar(fa).Name() != "sendEndMarker" {
			return
		}
		if c, ok := st.Val.(*ssa.Const); ok && c.Value != nil && c.Value.String() == "true" {
			trueStores = append(trueStores, st)
		} else if ok && c.Value != nil && c.Value.String() == "false" {
			falseStores = append(falseStores, st)
		} else if c2, isCall := st.Val.(*ssa.Call); isCall && staticCallee(c2) == has2 && strings.Contains(symOf(c2.Call.Args[0]).String(), "PFCPSMReqFlags") {
			// flag = has2ndBit(flags): sets and resets in one store
			computedStores = append(computedStores, st)
		} else if accumulatedFlag(parseFAR, st, has2) {
			// the flag is collected in a local (false, set to true under the SNDEM bit) and stored once
			computedStores = append(computedStores, st)
		} else if carryOrOfFlag(st, has2) {
			// flag = flag || has2ndBit(flags) (either order): the same as `if has2ndBit(flags) { flag = true }`
			orStores = append(orStores, st)
		} else {
			r.bad("R14.3", pname, "sendEndMarker assigned a non-constant", w.Pos(st.Pos()), "flag assigned from "+symOf(st.Val).String())
		}
	})
	falseStores = append(falseStores, computedStores...)
	for _, st := range orStores {
		st := st
		reset := mustPass(parseFAR, nil, func(i ssa.Instruction) bool { return i == ssa.Instruction(st) }, func(i ssa.Instruction) bool {
			for _, fs := range falseStores {
				if i == ssa.Instruction(fs) {
					return true
				}
			}
			return false
		})
		r.check(reset == nil, "R14.3", pname, "sendEndMarker reset before flag = flag || SNDEM", w.Pos(st.Pos()), "a store of false precedes on every path", "flag is not reset before parsing")
	}
	r.check(len(trueStores)+len(computedStores)+len(orStores) >= 1, "R14.3", pname, "the flag can be set (from the SNDEM bit)", w.Pos(parseFAR.Pos()), fmt.Sprintf("%d conditional + %d computed stores", len(trueStores), len(computedStores)), "parseFAR never sets sendEndMarker")
	for k, st := range trueStores {
		guard := onlyVia(parseFAR, st, func(a, b *ssa.BasicBlock) bool {
			// the SNDEM bit of the flags octet, tested by the helper or by the mask itself
			// (flags&0x02 != 0, == 0x02, > 0)
			if x, op, y, ok := edgeFact(a, b); ok {
				if and, isAnd := stripConv(x).(*ssa.BinOp); isAnd && and.Op == token.AND {
					fl, mask := and.X, and.Y
					if _, isK := constInt(fl); isK {
						fl, mask = mask, fl
					}
					m, mK := constInt(mask)
					k, kK := constInt(y)
					if mK && m == 0x02 && kK && strings.Contains(symOf(fl).String(), ".PFCPSMReqFlags") {
						return (op == token.NEQ && k == 0) || (op == token.GTR && k == 0) || (op == token.EQL && k == 0x02)
					}
				}
			}
			v, truth, ok := boolEdge(a, b)
			if !ok || !truth {
				return false
			}
			c, isCall := v.(*ssa.Call)
			if !isCall || staticCallee(c) != has2 {
				return false
			}
			return strings.Contains(symOf(c.Call.Args[0]).String(), ".PFCPSMReqFlags")
		})
		r.check(guard, "R14.3", pname, fmt.Sprintf("sendEndMarker=true #%d only under has2ndBit(PFCPSMReqFlags)", k+1), w.Pos(st.Pos()), "dominated by the true edge of has2ndBit(IE.PFCPSMReqFlags())", "flag set without the SNDEM bit of PFCPSMReqFlags")
		// a reset to false precedes on every path
		reset := mustPass(parseFAR, nil, func(i ssa.Instruction) bool { return i == ssa.Instruction(st) }, func(i ssa.Instruction) bool {
			for _, fs := range falseStores {
				if i == ssa.Instruction(fs) {
					return true
				}
			}
			return false
		})
		r.check(reset == nil, "R14.3", pname, fmt.Sprintf("sendEndMarker reset before set #%d", k+1), w.Pos(st.Pos()), "a store of false precedes on every path", "flag is not reset before parsing")
	}
	// the false-store is reached on every successful return (flag never stale)
	{
		var okRet []ssa.Instruction
		for _, ret := range returnsOf(parseFAR) {
			if len(ret.Results) == 1 && isNilConst(res(ret, 0)) {
				okRet = append(okRet, ret)
			}
		}
		for _, ret := range okRet {
			ret := ret
			miss := mustPass(parseFAR, nil, func(i ssa.Instruction) bool { return i == ret }, func(i ssa.Instruction) bool {
				for _, fs := range falseStores {
					if i == ssa.Instruction(fs) {
						return true
					}
				}
				return false
			})
			r.check(miss == nil, "R14.3", pname, "every successful parse writes the flag (reset, or computed from this IE)", w.Pos(ret.Pos()), "must-pass-through store", "a successful parse of an IE without PFCPSMReq-Flags leaves the flag as the caller's value had it: with a scratch FAR that lives across loop iterations, the flag of the previous Update FAR leaks into the next one and an extra End Marker is emitted")
		}
	}
	ruleC14Scratch(w, r)
	r.withRule("R14.10", func() { ruleC17DoneOnce(w, r) })
	ruleSocketAddresses(w, r, P, "R14.11")
	ruleC14EveryMarker(w, r)
	ruleC14Consumer(w, r)
	ruleC14More(w, r)
	// UpdateForwardingParameters only under op == update; ForwardingParameters only under op == create
	opUpdate := w.ConstInt(P, pfcpPkg, "update")
	opCreate := w.ConstInt(P, pfcpPkg, "create")
	for _, chk := range []struct {
		method string
		op     int64
	}{{"UpdateForwardingParameters", opUpdate}, {"ForwardingParameters", opCreate}} {
		n := 0
		allInstrs(parseFAR, func(i ssa.Instruction) {
			c, ok := i.(*ssa.Call)
			if !ok || !strings.HasSuffix(calleeName(c), "ie.IE)."+chk.method) {
				return
			}
			n++
			g := onlyVia(parseFAR, c, func(a, b *ssa.BasicBlock) bool {
				x, op, y, ok := edgeFact(a, b)
				if !ok || op != token.EQL {
					return false
				}
				if len(parseFAR.Params) < 5 {
					return false
				}
				opParam := parseFAR.Params[4]
				if x == ssa.Value(opParam) {
					k, isK := constInt(y)
					return isK && k == chk.op
				}
				if y == ssa.Value(opParam) {
					k, isK := constInt(x)
					return isK && k == chk.op
				}
				return false
			})
			r.check(g, "R14.3", pname, chk.method+" read only for its operation", w.Pos(c.Pos()), "dominated by op == constant", chk.method+" is read for the wrong operation")
		})
		r.floor("R14.3 "+chk.method+" sites", n, 1)
	}

	// R14.4 emission
	mname := w.FuncName(mod)
	sem := datapathCalls(mod, "SendEndMarkers")
	r.floor("R14.4 SendEndMarkers sites in the modification handler", len(sem), 1)
	rejected := w.ConstInt(P, iePkg, "CauseRequestRejected")
	var modCalls []*ssa.Call
	for _, c := range datapathCalls(mod, "SendMsgToUPF") {
		if sendMsgMethod(c) == w.ConstInt(P, pfcpPkg, "upfMsgTypeMod") {
			modCalls = append(modCalls, c)
		}
	}
	r.floor("R14.4 SendMsgToUPF(modify) sites", len(modCalls), 1)
	var listCell ssa.Value
	for k, c := range sem {
		tag := fmt.Sprintf("SendEndMarkers #%d", k+1)
		pos := w.Pos(c.Pos())
		okCause := false
		for _, mc := range modCalls {
			mc := mc
			if onlyVia(mod, c, func(a, b *ssa.BasicBlock) bool { return causeEdge(a, b, mc, rejected, false) }) {
				okCause = true
			}
		}
		r.check(okCause, "R14.4", mname, tag+" after a not-rejected SendMsgToUPF(modify)", pos, "every path takes the cause != CauseRequestRejected edge", "end markers can be emitted although the datapath update failed or was not attempted")
		okEnabled := onlyVia(mod, c, func(a, b *ssa.BasicBlock) bool {
			v, truth, ok := boolEdge(a, b)
			return ok && truth && strings.HasSuffix(symOf(v).String(), "upf.enableEndMarker")
		})
		r.check(okEnabled, "R14.4", mname, tag+" only when enableEndMarker", pos, "dominated by the true edge", "end markers emitted although disabled by configuration")
		listCell = c.Call.Args[0]
	}
	// the list passed to SendEndMarkers is the one UpdateFAR filled, and it is function-local
	if listCell != nil {
		same := true
		for _, c := range callsTo(mod, upd) {
			if c.Common().Args[2] != listCell {
				same = false
			}
		}
		_, isAlloc := listCell.(*ssa.Alloc)
		r.check(same && isAlloc, "R14.4", mname, "the emitted list is the local list filled by UpdateFAR", w.Pos(mod.Pos()), "same local cell", "SendEndMarkers emits a list other than the one UpdateFAR filled (or a non-local one)")
		// each UpdateFAR result is checked: a failed update contributes nothing (addEndMarker is before the store, so a not-found FAR never reaches it — covered by idGuard)
	}
	// who may emit
	for _, f := range w.Funcs {
		if f == mod || !strings.HasPrefix(w.FuncName(f), "pfcpiface.") {
			continue
		}
		for _, c := range datapathCalls(f, "SendEndMarkers") {
			r.bad("R14.2", w.FuncName(f), "SendEndMarkers call outside the modification handler", w.Pos(c.Pos()), "end markers emitted from "+w.FuncName(f))
		}
	}

	// R14.5 packet literal
	aname := w.FuncName(aem)
	type want struct{ typ, field, expect string }
	for _, x := range []want{
		{"IPv4", "DstIP", "pfcpiface.int2ip(far.tunnelIP4Dst)"},
		{"IPv4", "SrcIP", "pfcpiface.int2ip(far.tunnelIP4Src)"},
		{"UDP", "SrcPort", "2152"},
		{"UDP", "DstPort", "2152"},
		{"GTPv1U", "TEID", "far.tunnelTEID"},
		{"GTPv1U", "MessageType", "254"},
		{"IPv4", "Protocol", "17"},
	} {
		sts := fieldStores(aem, x.typ)[x.field]
		if len(sts) == 0 {
			r.bad("R14.5", aname, x.typ+"."+x.field, w.Pos(aem.Pos()), "field not set in the end-marker packet")
			continue
		}
		for _, st := range sts {
			s := symOf(st.Val).String()
			r.check(s == x.expect, "R14.5", aname, x.typ+"."+x.field+" ← "+x.expect, w.Pos(st.Pos()), s, x.typ+"."+x.field+" is "+s+", want "+x.expect)
		}
	}
	// the appended bytes come from a serialize buffer created in this call (not a shared / pooled one)
	allInstrs(aem, func(i ssa.Instruction) {
		c, ok := i.(*ssa.Call)
		if !ok || !c.Call.IsInvoke() || c.Call.Method.Name() != "Bytes" {
			return
		}
		s := symOf(c.Call.Value).String()
		r.check(strings.Contains(s, "gopacket.NewSerializeBuffer") && !strings.Contains(s, "φ"), "R14.5", aname, "packet bytes come from a buffer created by this call", w.Pos(c.Pos()), s, "end-marker bytes are taken from "+s+" (a shared or reused buffer aliases packets already queued)")
	})
	// the serialised packet is appended exactly once per call on the success path
	{
		n := 0
		allInstrs(aem, func(i ssa.Instruction) {
			if st, ok := i.(*ssa.Store); ok && len(aem.Params) >= 2 && st.Addr == ssa.Value(aem.Params[len(aem.Params)-1]) {
				n++
				again := reach(aem, i, func(j ssa.Instruction) bool {
					s2, ok := j.(*ssa.Store)
					return ok && s2.Addr == ssa.Value(aem.Params[len(aem.Params)-1])
				}, nil, nil)
				r.check(again == nil, "R14.5", aname, "one append to the list per call", w.Pos(st.Pos()), "no second append reachable", "two packets appended for one FAR")
			}
		})
		r.floor("R14.5 appends in addEndMarker", n, 1)
	}
}

// ruleC14Scratch: each Update/Create FAR IE is parsed into a FAR value of its own: the receiver of
// parseFAR in the handlers' loops is a local declared inside the loop body (zeroed per element).
func ruleC14Scratch(w *World, r *Report) {
	const P = "C14"
	parseFAR := w.Fn(P, "pfcpiface.(*far).parseFAR")
	n := 0
	for _, hn := range []string{"pfcpiface.(*PFCPConn).handleSessionModificationRequest", "pfcpiface.(*PFCPConn).handleSessionEstablishmentRequest"} {
		h := w.Fn(P, hn)
		for _, c := range callsTo(h, parseFAR) {
			call := c.(*ssa.Call)
			n++
			al, isAl := call.Call.Args[0].(*ssa.Alloc)
			inLoop := false
			if isAl {
				b := al.Block()
				for _, sc := range b.Succs {
					if reachesBlock(sc, b) {
						inLoop = true
					}
				}
			}
			if isAl && !inLoop {
				// declared outside the loop and zeroed at the top of every iteration: `f = far{}`
				for _, ref := range *al.Referrers() {
					st, ok := ref.(*ssa.Store)
					if !ok || st.Addr != ssa.Value(al) {
						continue
					}
					if k, isK := st.Val.(*ssa.Const); isK && k.Value == nil && instrDominates(st, call) && reachesBlock(call.Block(), st.Block()) {
						inLoop = true
					}
				}
			}
			r.check(isAl && inLoop, "R14.3", hn, fmt.Sprintf("FAR IE #%d is parsed into a value of its own", n), w.Pos(call.Pos()), "scratch FAR declared inside the loop", "the FAR that receives the parsed IE lives across loop iterations: fields the next IE does not carry (send-end-marker flag, tunnel parameters) keep the previous IE's values")
		}
	}
	r.floor("R14.3 parseFAR call sites in the handlers", n, 2)
}

// ruleC14EveryMarker: one marker per matching FAR all the way to the socket queue.
//   - addEndMarker leaves without appending only when building the packet failed (an error of the
//     library calls); nothing else (e.g. a look at the packets already queued) decides;
//   - SendEndMarkers hands every element of the list to the sender: a plain send on every iteration,
//     no early exit.
func ruleC14EveryMarker(w *World, r *Report) {
	const P = "C14"
	add := w.Fn(P, "pfcpiface.addEndMarker")
	an := w.FuncName(add)
	var app ssa.Instruction
	allInstrs(add, func(i ssa.Instruction) {
		if c, ok := i.(*ssa.Call); ok {
			if b, isB := c.Call.Value.(*ssa.Builtin); isB && b.Name() == "append" && strings.Contains(symOf(c.Call.Args[0]).String(), "endMarkerList") {
				app = i
			}
		}
	})
	if app == nil {
		r.bad("R14.6", an, "the marker is appended to the caller's list", w.Pos(add.Pos()), "addEndMarker no longer appends to endMarkerList")
	} else {
		n := 0
		for k, ret := range returnsOf(add) {
			// a return that does not pass the append must be behind an "err != nil" edge
			if reach(add, nil, func(i ssa.Instruction) bool { return i == ssa.Instruction(ret) }, func(i ssa.Instruction) bool { return i == app }, nil) == nil {
				continue
			}
			n++
			hit := reach(add, nil, func(i ssa.Instruction) bool { return i == ssa.Instruction(ret) }, func(i ssa.Instruction) bool { return i == app }, func(a, b *ssa.BasicBlock) bool {
				return nilnessEdge(a, b, func(x ssa.Value) bool { return isErrorType(x.Type()) }, false)
			})
			r.check(hit == nil, "R14.6", an, fmt.Sprintf("return #%d without a marker only when building the packet failed", k+1), w.Pos(ret.Pos()), "behind err != nil", "addEndMarker can leave without appending the marker for a reason other than a serialisation error (e.g. because an identical packet is already queued): two flagged FARs that share the old tunnel get one End Marker instead of one each")
		}
		r.floor("R14.6 marker-less returns of addEndMarker", n, 1)
	}
	send := w.Fn(P, "pfcpiface.(*bess).SendEndMarkers")
	sn := w.FuncName(send)
	loops := rangeLoopsOver(send, "endMarkerList")
	if len(loops) != 1 {
		r.bad("R14.6", sn, "one pass over the marker list", w.Pos(send.Pos()), fmt.Sprintf("%d loops over the list", len(loops)))
		return
	}
	hdr, body := loops[0][0], loops[0][1]
	isPlainSend := func(i ssa.Instruction) bool {
		s, ok := i.(*ssa.Send)
		return ok && strings.HasSuffix(symOf(s.Chan).String(), "endMarkerChan")
	}
	r.check(everyIteration(send, body, hdr, isPlainSend) && len(loopEarlyExits(send, hdr)) == 0, "R14.6", sn, "every marker of the list is handed to the sender (no drop, no early exit)", w.Pos(send.Pos()), "plain send on every iteration", "a marker can be skipped or the loop left early (e.g. select/default when the queue is full): the FAR update was accepted and programmed but its End Marker is never sent")
}

// ruleC14Consumer (R14.7): a queued End Marker leaves the agent only if somebody reads the queue.
// (a) wherever a plug-in's endMarkerChan is (re)assigned, the consumer goroutine for it is started in
// the same function or function literal — a queue created on one schedule (every initialisation) and a
// consumer started on another (once) leave every later queue unread; (b) the consumer loop ends only
// when its channel is closed: an early return or break on a failed write silences every later marker.
func ruleC14Consumer(w *World, r *Report) {
	const P = "C14"
	loopsByOwner := map[string]*ssa.Function{
		"bess": w.Fn(P, "pfcpiface.(*bess).endMarkerSendLoop"),
		"UP4":  w.Fn(P, "pfcpiface.(*UP4).endMarkerSendLoop"),
	}
	nStores := 0
	for _, f := range w.Funcs {
		if strings.HasPrefix(w.FuncName(f), "test/") {
			continue
		}
		allInstrs(f, func(i ssa.Instruction) {
			st, ok := i.(*ssa.Store)
			if !ok {
				return
			}
			fa, ok := st.Addr.(*ssa.FieldAddr)
			if !ok || fieldVar(fa) == nil || fieldVar(fa).Name() != "endMarkerChan" {
				return
			}
			owner := ""
			if nt := namedOf(fa.X.Type()); nt != nil {
				owner = nt.Obj().Name()
			}
			loop := loopsByOwner[owner]
			if loop == nil {
				return
			}
			nStores++
			started := false
			allInstrs(f, func(j ssa.Instruction) {
				if g, ok := j.(*ssa.Go); ok && staticCallee(g) == loop {
					started = true
				}
			})
			r.check(started, "R14.7", w.FuncName(f), owner+".endMarkerChan is assigned together with the start of its consumer", w.Pos(st.Pos()), "go endMarkerSendLoop in the same function", "the End Marker queue is (re)created here but its consumer goroutine is started elsewhere, on its own schedule: after this assignment runs again the markers go into a queue nobody reads, and the handler blocks once it is full")
		})
	}
	r.floor("R14.7 assignments of endMarkerChan", nStores, 2)
	for _, owner := range []string{"UP4", "bess"} {
		loop := loopsByOwner[owner]
		n := 0
		for _, b := range loop.Blocks {
			var recv *ssa.UnOp
			for _, i := range b.Instrs {
				if u, ok := i.(*ssa.UnOp); ok && u.Op == token.ARROW && u.CommaOk {
					recv = u
				}
			}
			if recv == nil || blockIf(b) == nil {
				continue
			}
			n++
			exits := loopEarlyExits(loop, b)
			pos := w.Pos(recv.Pos())
			if len(exits) > 0 && len(exits[0].Instrs) > 0 {
				pos = w.Pos(posNear(exits[0].Instrs[0]))
			}
			r.check(len(exits) == 0, "R14.7", w.FuncName(loop), "the consumer keeps reading until the queue is closed", pos, "no return or break inside the loop", "the consumer goroutine can end while the queue is still in use (it is started once and never restarted): after that no End Marker is sent any more")
		}
		r.floor("R14.7 receive loop of "+owner+".endMarkerSendLoop", n, 1)
	}
}

// ruleC14More (R14.8, R14.9).
func ruleC14More(w *World, r *Report) {
	const P = "C14"
	// R14.8: SNDEM is bit 2 of the PFCPSMReq-Flags octet, independent of the other bits. Once the octet was
	// read, every path looks at that bit: no other test on the octet (DROBU, QAURR) can stand in front of it
	// and take the decision away.
	{
		f := w.Fn(P, "pfcpiface.(*far).parseFAR")
		has2 := w.Fn(P, "pfcpiface.has2ndBit")
		n := 0
		allInstrs(f, func(i ssa.Instruction) {
			c, ok := i.(*ssa.Call)
			if !ok || !strings.HasSuffix(calleeName(c), "ie.IE).PFCPSMReqFlags") {
				return
			}
			n++
			errV := extractOf(c, 1)
			var start ssa.Instruction
			for _, b := range f.Blocks {
				for _, sc := range b.Succs {
					if errV != nil && nilnessEdge(b, sc, func(x ssa.Value) bool { return x == errV }, true) && len(sc.Instrs) > 0 {
						start = sc.Instrs[0]
					}
				}
			}
			if start == nil {
				r.bad("R14.8", w.FuncName(f), "the flags octet's read error is examined", w.Pos(c.Pos()), "no err == nil edge after PFCPSMReqFlags()")
				return
			}
			flags := extractOf(c, 0)
			looksAtBit := func(j ssa.Instruction) bool {
				hc, ok := j.(*ssa.Call)
				if ok && staticCallee(hc) == has2 && len(hc.Call.Args) == 1 && hc.Call.Args[0] == flags {
					return true
				}
				// flags & 0x02 written out
				if bo, ok := j.(*ssa.BinOp); ok && bo.Op == token.AND && bo.X == flags {
					if k, isK := constInt(bo.Y); isK && k == 2 {
						return true
					}
				}
				return false
			}
			// from the successful read: the next IE (loop head) or the return must not be reached without the test
			hdrOrRet := func(j ssa.Instruction) bool {
				if isReturn(j) {
					return true
				}
				// the range loop's header: a block that dominates the read and is re-entered
				b := j.Block()
				return b.Dominates(c.Block()) && b != c.Block() && reachesBlock(c.Block(), b) && j == b.Instrs[0] && blockIf(b) != nil
			}
			// a path on which the flag is already set (flag || SNDEM) has nothing left to decide
			alreadySet := func(a, b *ssa.BasicBlock) bool {
				v, truth, ok := boolEdge(a, b)
				if !ok || !truth {
					return false
				}
				u, isLoad := v.(*ssa.UnOp)
				if !isLoad || u.Op != token.MUL {
					return false
				}
				fa, isFA := u.X.(*ssa.FieldAddr)
				return isFA && fieldVar(fa) != nil && fieldVar(fa).Name() == "sendEndMarker"
			}
			miss := reach(f, start, hdrOrRet, looksAtBit, alreadySet)
			if looksAtBit(start) {
				miss = nil
			}
			r.check(miss == nil, "R14.8", w.FuncName(f), "the SNDEM bit is examined whatever the other bits of the octet are", w.Pos(c.Pos()), "bit 2 tested on every path after the read", "after the PFCPSMReq-Flags octet was read, a path leaves the IE without looking at bit 2 (another flag of the octet is handled first and ends the decision): an Update FAR that sets SNDEM together with that flag re-programs the tunnel and no End Marker is sent to the old one")
		})
		r.floor("R14.8 reads of the PFCPSMReq-Flags octet", n, 1)
	}
	// R14.9: only an Update FAR can produce an End Marker: UpdateFAR — the only place markers are built — is
	// called from the Update FAR loop of the modification handler, with the FAR parsed from an Update FAR IE.
	{
		mod := w.Fn(P, "pfcpiface.(*PFCPConn).handleSessionModificationRequest")
		upd := w.Fn(P, "pfcpiface.(*PFCPSession).UpdateFAR")
		parse := w.Fn(P, "pfcpiface.(*far).parseFAR")
		n := 0
		for _, e := range w.CG().callersOf(upd) {
			cn := w.FuncName(e.Caller)
			if strings.HasPrefix(cn, "test/") {
				continue
			}
			n++
			if e.Caller != mod {
				r.bad("R14.9", cn, "End Markers are built for Update FARs only", w.Pos(e.Site.Pos()), cn+" calls UpdateFAR (which builds End Markers)")
				continue
			}
			// the FAR handed over was parsed from an element of smreq.UpdateFAR
			farArg := e.Site.(ssa.CallInstruction).Common().Args[1]
			okU := false
			for _, pc := range callsTo(mod, parse) {
				if pc.Common().Args[0] == farArg || sameCell(pc.Common().Args[0], farArg) {
					if strings.Contains(symOf(pc.Common().Args[1]).String(), "UpdateFAR") {
						okU = true
					} else {
						okU = false
						break
					}
				}
			}
			r.check(okU, "R14.9", cn, "End Markers are built for Update FARs only", w.Pos(e.Site.Pos()), "FAR parsed from an Update FAR IE", "UpdateFAR is called with a FAR that was parsed from another IE (a Create FAR): parseFAR sets sendEndMarker whatever the operation, so a creation can emit an End Marker — 'creations emit none'")
		}
		r.floor("R14.9 callers of UpdateFAR", n, 1)
	}
}

func sameCell(a, b ssa.Value) bool {
	ra, okA := a.(*ssa.Alloc)
	rb, okB := b.(*ssa.Alloc)
	return okA && okB && ra == rb
}

// carryOrOfFlag: the stored value is `flag || has2ndBit(PFCPSMReqFlags)` in either operand order: a φ whose
// inputs are the SNDEM call, a load of the flag itself, or the constant true arriving over the true edge of
// one of those two; the call must take part.
func carryOrOfFlag(st *ssa.Store, has2 *ssa.Function) bool {
	phi, ok := st.Val.(*ssa.Phi)
	if !ok {
		return false
	}
	isSNDEM := func(v ssa.Value) bool {
		c, ok := v.(*ssa.Call)
		return ok && staticCallee(c) == has2 && strings.Contains(symOf(c.Call.Args[0]).String(), "PFCPSMReqFlags")
	}
	isFlag := func(v ssa.Value) bool {
		u, ok := v.(*ssa.UnOp)
		if !ok || u.Op != token.MUL {
			return false
		}
		fa, ok := u.X.(*ssa.FieldAddr)
		return ok && fieldVar(fa) != nil && fieldVar(fa).Name() == "sendEndMarker"
	}
	sndem := false
	for k, e := range phi.Edges {
		switch {
		case isSNDEM(e):
			sndem = true
		case isFlag(e):
		default:
			c, ok := e.(*ssa.Const)
			if !ok || c.Value == nil || c.Value.String() != "true" {
				return false
			}
			pred := phi.Block().Preds[k]
			v, truth, ok := boolEdge(pred, phi.Block())
			if !ok || !truth || !(isSNDEM(v) || isFlag(v)) {
				return false
			}
			if isSNDEM(v) {
				sndem = true
			}
		}
	}
	return sndem
}

// accumulatedFlag: the stored value is a local that starts false and becomes true only where the SNDEM bit
// of the PFCPSMReq-Flags octet was seen: a φ network whose leaves are the constant false and the constant
// true, every true arriving over an edge that is reachable only through has2ndBit(flags) == true.
func accumulatedFlag(fn *ssa.Function, st *ssa.Store, has2 *ssa.Function) bool {
	root, ok := st.Val.(*ssa.Phi)
	if !ok {
		return false
	}
	sndemEdge := func(a, b *ssa.BasicBlock) bool {
		v, truth, ok := boolEdge(a, b)
		if !ok || !truth {
			return false
		}
		c, isCall := v.(*ssa.Call)
		return isCall && staticCallee(c) == has2 && strings.Contains(symOf(c.Call.Args[0]).String(), "PFCPSMReqFlags")
	}
	seen := map[*ssa.Phi]bool{}
	nTrue, nFalse := 0, 0
	var walk func(p *ssa.Phi) bool
	walk = func(p *ssa.Phi) bool {
		if seen[p] {
			return true
		}
		seen[p] = true
		for k, e := range p.Edges {
			switch x := e.(type) {
			case *ssa.Phi:
				if !walk(x) {
					return false
				}
			case *ssa.Const:
				if x.Value == nil {
					return false
				}
				switch x.Value.String() {
				case "false":
					nFalse++
				case "true":
					nTrue++
					pred := p.Block().Preds[k]
					if len(pred.Instrs) == 0 {
						return false
					}
					last := pred.Instrs[len(pred.Instrs)-1]
					if !onlyVia(fn, last, sndemEdge) && !sndemEdge(pred, p.Block()) {
						return false
					}
				default:
					return false
				}
			default:
				return false
			}
		}
		return true
	}
	return walk(root) && nTrue >= 1 && nFalse >= 1
}
