package main

import (
	"fmt"
	"go/token"
	"strings"

	"golang.org/x/tools/go/ssa"
)

func init() { rules["C15"] = ruleC15 }

// withClosures returns f and its anonymous functions (transitively).
func withClosures(f *ssa.Function) []*ssa.Function {
	out := []*ssa.Function{f}
	for _, a := range f.AnonFuncs {
		out = append(out, withClosures(a)...)
	}
	return out
}

func ruleC15(w *World, r *Report) {
	const P = "C15"
	r.Explanation = "R15.1 pool purity: every value handed to a release function of a pool has the provenance 'allocated from that pool' (directly, or through the meter-cell fields under the meter-type arm of the same kind; for counters the released field path equals the path the allocation was stored to); R15.2 releases in sendDelete are dominated by the success edge of the DELETE write that removes the referencing entries; " +
		"R15.3 release-on-error closures release only what this call allocated (the !exists guard) and shared maps are updated only after the write succeeded; R15.4 every P4Runtime write reachable from create/update has its error flow to the function's error result (success unreachable unless err == nil), the per-update status filter rejects on the first status that is neither OK nor ALREADY_EXISTS and on an empty status list, SendMsgToUPF maps every error to a rejected cause; R15.5 references and pools a live session holds are only given up where the session's entries are deleted: the application-reference release runs only under the DELETE method, and the connection object whose absence makes tryConnect refill all pools (up4.p4client) is only ever assigned a successfully created client."
	r.Explanation += " Release sites reached through a function value (release := up4.releaseApp…; if … { release = up4.releaseSession… }) are resolved per selecting edge, edges decided by the fields of a local meter literal are folded, and a meter literal's own meterType names the pool of its cells."
	r.Explanation += " R15.6 in sendCreate the error of resetCounter/allocateCounterID is tested before the loop goes round; R15.7 sendUpdate reaches no meter/counter cell release before modifyUP4ForwardingConfiguration returned nil."
	r.NotDecided = "multi-fault sequences as such (the rules are per site and independent of which write fails); that the switch's state matches after partial batches"
	up := func(n string) *ssa.Function { return w.Fn(P, "pfcpiface.(*UP4)."+n) }

	// ---------- R15.1 meter cells
	relApp, relSess := up("releaseAppMeterCellID"), up("releaseSessionMeterCellID")
	mtApp, mtSess := w.ConstInt(P, pfcpPkg, "meterTypeApplication"), w.ConstInt(P, pfcpPkg, "meterTypeSession")
	nRel := 0
	for _, f := range w.Funcs {
		if f.Pkg == nil || f.Pkg.Pkg.Path() != pfcpPkg {
			continue
		}
		// release sites: static calls, and calls of a function value that is one of the two release methods
		// depending on the way the call is reached (release := up4.releaseApp…; if … { release = up4.releaseSession… })
		type relSite struct {
			c      ssa.CallInstruction
			callee *ssa.Function
			enter  [2]*ssa.BasicBlock // the φ edge that selects the callee (nil for a static call)
		}
		var sites []relSite
		for _, c := range callsIn(f, func(c ssa.CallInstruction) bool { return true }) {
			if g := c.Common().StaticCallee(); g != nil {
				if g == relApp || g == relSess {
					sites = append(sites, relSite{c: c, callee: g})
				}
				continue
			}
			if phi, ok := c.Common().Value.(*ssa.Phi); ok && !c.Common().IsInvoke() {
				for k, e := range phi.Edges {
					if g := closureOf(e); g == relApp || g == relSess {
						sites = append(sites, relSite{c: c, callee: g, enter: [2]*ssa.BasicBlock{phi.Block().Preds[k], phi.Block()}})
					}
				}
			} else if g := closureOf(c.Common().Value); !c.Common().IsInvoke() && (g == relApp || g == relSess) {
				sites = append(sites, relSite{c: c, callee: g})
			}
		}
		for _, site := range sites {
			c := site.c
			if site.enter[1] != nil && !edgeFeasible(site.enter[0], site.enter[1]) {
				continue
			}
			nRel++
			kind := "app"
			if site.callee == relSess {
				kind = "session"
			}
			arg := c.Common().Args[len(c.Common().Args)-1]
			s := symOf(arg)
			leaves := strings.Join(s.Leaves(), " ")
			got := ""
			switch {
			case strings.Contains(leaves, "allocateAppMeterCellID#0") && !strings.Contains(leaves, "allocateSessionMeterCellID#0"):
				got = "app"
			case strings.Contains(leaves, "allocateSessionMeterCellID#0") && !strings.Contains(leaves, "allocateAppMeterCellID#0"):
				got = "session"
			case strings.Contains(leaves, "UP4.meters") || strings.Contains(leaves, "meter."):
				stored := strings.Contains(leaves, "UP4.meters")
				// a meter value built in this function: its own meterType field says which pool its cells are from
				if ld, ok := arg.(*ssa.UnOp); ok && ld.Op == token.MUL && !stored {
					if fa, ok := ld.X.(*ssa.FieldAddr); ok {
						if al, ok := fa.X.(*ssa.Alloc); ok {
							if st := derefStruct(al.Type()); st != nil {
								for fi := 0; fi < st.NumFields(); fi++ {
									if st.Field(fi).Name() == "meterType" {
										if k, known := literalFieldOf(al, fi, 0); known {
											switch k {
											case mtApp:
												got = "app"
											case mtSess:
												got = "session"
											default:
												got = "untagged literal"
											}
										}
									}
								}
							}
						}
					}
				}
				if got != "" {
					break
				}
				// a stored meter: the kind is decided by the meter-type arm that dominates the call
				for _, mt := range []struct {
					k    int64
					name string
				}{{mtApp, "app"}, {mtSess, "session"}} {
					mt := mt
					if reach(f, nil, func(i ssa.Instruction) bool { return i == c.(ssa.Instruction) }, nil, func(a, b *ssa.BasicBlock) bool {
						// only the ways that select this callee
						if site.enter[1] != nil && b == site.enter[1] && a != site.enter[0] {
							return true
						}
						x, op, y, ok := edgeFact(a, b)
						if !ok || !strings.HasSuffix(symOf(x).String(), ".meterType") {
							return false
						}
						k, isK := constInt(y)
						if !isK {
							return false
						}
						// meterType == k, or — for stored meters, which are always tagged with one of the two kinds
						// (checked below) — meterType != the other kind
						return (op == token.EQL && k == mt.k) || (stored && op == token.NEQ && k != mt.k)
					}) == nil {
						got = mt.name
					}
				}
			}
			fn := w.FuncName(f)
			r.check(got == kind, "R15.1", fn, "cell released into the "+kind+"-meter pool was allocated from it", w.Pos(c.Pos()), s.String(), fmt.Sprintf("a cell with provenance '%s' (%s meter) is released into the %s-meter pool: ids migrate between pools", s.String(), orDash(got), kind))
		}
	}
	r.floor("R15.1 meter cell release sites", nRel, 8)
	// the meter-type tag stored with the cells is the kind of the pool they came from
	for _, x := range []struct {
		fn   string
		tag  int64
		kind string
	}{{"configureApplicationMeter", mtApp, "allocateAppMeterCellID"}, {"configureSessionMeter", mtSess, "allocateSessionMeterCellID"}} {
		f := up(x.fn)
		fs := fieldStores(f, "meter")
		for _, st := range fs["meterType"] {
			k, _ := constInt(st.Val)
			r.check(k == x.tag, "R15.1", w.FuncName(f), "stored meter is tagged with its pool's kind", w.Pos(st.Pos()), fmt.Sprint(k), fmt.Sprintf("meter tagged %d in %s", k, x.fn))
		}
		for _, fld := range []string{"uplinkCellID", "downlinkCellID"} {
			for _, st := range fs[fld] {
				if _, isK := constInt(st.Val); isK {
					continue
				}
				leaves := strings.Join(symOf(st.Val).Leaves(), " ")
				r.check(strings.Contains(leaves, x.kind+"#0"), "R15.1", w.FuncName(f), fld+" holds a cell of the own pool", w.Pos(st.Pos()), symOf(st.Val).String(), fld+" holds "+symOf(st.Val).String())
			}
		}
	}
	// the allocators/releasers touch their own pool
	for _, x := range []struct{ fn, pool, method string }{
		{"allocateAppMeterCellID", "UP4.appMeterCellIDsPool", "Pop"}, {"releaseAppMeterCellID", "UP4.appMeterCellIDsPool", "Add"},
		{"allocateSessionMeterCellID", "UP4.sessMeterCellIDsPool", "Pop"}, {"releaseSessionMeterCellID", "UP4.sessMeterCellIDsPool", "Add"},
	} {
		f := up(x.fn)
		okOp := false
		wrong := ""
		allInstrs(f, func(i ssa.Instruction) {
			c, ok := i.(*ssa.Call)
			if !ok || !c.Call.IsInvoke() || (c.Call.Method.Name() != "Pop" && c.Call.Method.Name() != "Add" && c.Call.Method.Name() != "Remove") {
				return
			}
			recv := symOf(c.Call.Value).String()
			if recv == x.pool && c.Call.Method.Name() == x.method {
				okOp = true
			} else {
				wrong = recv + "." + c.Call.Method.Name()
			}
		})
		r.check(okOp && wrong == "", "R15.1", w.FuncName(f), x.fn+" = "+x.pool+"."+x.method, w.Pos(f.Pos()), "own pool", x.fn+" operates on "+wrong)
	}
	// released value = parameter (no constant / other value sneaks into the pool)
	for _, f := range []*ssa.Function{relApp, relSess} {
		allInstrs(f, func(i ssa.Instruction) {
			c, ok := i.(*ssa.Call)
			if ok && c.Call.IsInvoke() && c.Call.Method.Name() == "Add" {
				r.check(stripConv(c.Call.Args[0]) == ssa.Value(f.Params[1]), "R15.1", w.FuncName(f), "the released value is the argument", w.Pos(c.Pos()), "param", "a value other than the argument is added to the pool")
			}
		})
	}

	// ---------- R15.1 counters
	relCtr, allocCtr := up("releaseCounterID"), up("allocateCounterID")
	preQ := w.ConstInt(P, pfcpPkg, "preQosCounterID")
	nCtr := 0
	for _, top := range w.Funcs {
		if top.Pkg == nil || top.Pkg.Pkg.Path() != pfcpPkg || top.Parent() != nil {
			continue
		}
		fam := withClosures(top)
		var rels, allocs []ssa.CallInstruction
		var relIn []*ssa.Function
		for _, f := range fam {
			for _, c := range callsTo(f, relCtr) {
				rels = append(rels, c)
				relIn = append(relIn, f)
			}
			allocs = append(allocs, callsTo(f, allocCtr)...)
		}
		if len(rels) == 0 {
			continue
		}
		// where were this call's allocations stored?
		var storedTo []string
		for _, f := range fam {
			allInstrs(f, func(i ssa.Instruction) {
				st, ok := i.(*ssa.Store)
				if !ok {
					return
				}
				fa, ok := st.Addr.(*ssa.FieldAddr)
				if !ok || fieldVar(fa) == nil || fieldVar(fa).Name() != "ctrID" {
					return
				}
				if strings.Contains(strings.Join(symOf(st.Val).Leaves(), " "), "allocateCounterID#0") {
					storedTo = append(storedTo, rootedPath(fa))
				}
			})
		}
		for k, c := range rels {
			nCtr++
			fn := w.FuncName(relIn[k])
			id, _ := constInt(c.Common().Args[1])
			r.check(id == preQ, "R15.1", fn, "counter released into the pool it is allocated from", w.Pos(c.Pos()), fmt.Sprint(id), fmt.Sprintf("released into counter pool %d, allocated from %d", id, preQ))
			val := c.Common().Args[2]
			vs := symOf(val)
			if len(allocs) > 0 {
				// an allocating function may only give back what it allocated: same rooted field path, or the allocation result itself
				path := rootedPathOfValue(val)
				okPath := strings.Contains(strings.Join(vs.Leaves(), " "), "allocateCounterID#0")
				for _, p := range storedTo {
					if p == path {
						okPath = true
					}
				}
				r.check(okPath, "R15.1", fn, "releases the counter cells this call allocated", w.Pos(c.Pos()), path, fmt.Sprintf("the allocation is stored to %v but the release reads %s: a cell this call never allocated (e.g. cell 0 of a live session) is put back into the pool", storedTo, path))
			} else {
				r.check(strings.HasSuffix(vs.String(), ".ctrID)") || strings.HasSuffix(vs.String(), ".ctrID"), "R15.1", fn, "released counter cell is a PDR's ctrID", w.Pos(c.Pos()), vs.String(), "released counter cell is "+vs.String())
			}
		}
	}
	r.floor("R15.1 counter release sites", nCtr, 1)

	// ---------- R15.2 ordering in sendDelete
	del := up("sendDelete")
	mod := up("modifyUP4ForwardingConfiguration")
	dn := w.FuncName(del)
	modCalls := callsTo(del, mod)
	r.floor("R15.2 DELETE write in sendDelete", len(modCalls), 1)
	for _, rel := range []struct {
		f    *ssa.Function
		what string
	}{{relCtr, "counter cells"}, {up("resetMeters"), "meter cells"}, {up("removeGTPTunnelPeer"), "tunnel-peer ids"}, {up("removeUeAddrAndFSEIDMappings"), "UE-address mappings"}} {
		for _, c := range callsTo(del, rel.f) {
			okOrder := false
			for _, mc := range modCalls {
				mcall := mc.(*ssa.Call)
				if errGuardedStrict(del, mcall, c.(ssa.Instruction)) {
					okOrder = true
				}
			}
			r.check(okOrder, "R15.2", dn, rel.what+" released only after the DELETE write succeeded", w.Pos(c.Pos()), "dominated by modify(DELETE) == nil", rel.what+" are released before (or regardless of) the write that removes the entries referencing them: if that write fails the deletion is rejected, the session stays live and its ids are handed to another session")
		}
	}

	// ids of shared objects: released only in a function that has applied the DELETE of the entry that carries the id
	// (a release is the id going back to its pool: through the release helper, or appended to the pool in place)
	for _, x := range []struct{ fn, release, pool, what string }{
		{"removeInternalApplicationIDAndGetP4rtEntry", "unsafeReleaseInternalApplicationID", "applicationIDsPool", "application id"},
		{"removeGTPTunnelPeer", "unsafeReleaseAllocatedGTPTunnelPeer", "tunnelPeerIDsPool", "tunnel-peer id"},
	} {
		f := up(x.fn)
		for _, c := range idReleaseSites(f, w.FnOpt("pfcpiface.(*UP4)."+x.release), x.pool) {
			applied := false
			allInstrs(f, func(i ssa.Instruction) {
				if wc, ok := i.(*ssa.Call); ok && staticCallee(wc) != nil && staticCallee(wc).Name() == "ApplyTableEntries" && instrDominates(wc, c) {
					applied = true
				}
			})
			r.check(applied, "R15.2", w.FuncName(f), x.what+" released only after its DELETE was applied", w.Pos(c.Pos()), "a DELETE write precedes the release", "the "+x.what+" goes back to the pool while the entry that carries it is only being prepared for deletion: if the caller's write fails the deletion is rejected, the session stays live and the id can be handed to another owner")
		}
	}
	// every PDR that gets programmed owns a counter cell taken from the pool
	for _, name := range []string{"sendCreate", "sendUpdate"} {
		f := up(name)
		reachAlloc := w.CG().Reachable([]*ssa.Function{f}, nil)[allocCtr]
		r.check(reachAlloc, "R15.1", w.FuncName(f), "new PDRs get a counter cell from the pool", w.Pos(f.Pos()), "allocateCounterID reachable", name+" programs PDRs without allocating counter cells: PDRs created by a modification keep ctrID 0, a cell the pool also hands to some session")
	}

	// ---------- R15.3 release-on-error
	ruleC15TunnelRelease(w, r, P)
	ruleLoopErrorExamined(w, r, P, "R15.6", "pfcpiface.(*UP4).sendCreate", []string{"resetCounter", "allocateCounterID"})
	ruleUpdateKeepsCells(w, r, P, "R15.7")
	{
		f := up("addInternalApplicationIDAndGetP4rtEntry")
		allInstrs(f, func(i ssa.Instruction) {
			mu, ok := i.(*ssa.MapUpdate)
			if !ok || !strings.HasSuffix(symOf(mu.Map).String(), "UP4.applicationIDs") {
				return
			}
			var build *ssa.Call
			allInstrs(f, func(j ssa.Instruction) {
				if c, ok := j.(*ssa.Call); ok && staticCallee(c) != nil && staticCallee(c).Name() == "BuildApplicationsTableEntry" {
					build = c
				}
			})
			g := build != nil && errGuardedStrict(f, build, mu)
			r.check(g, "R15.3", w.FuncName(f), "application registered only after its entry could be built", w.Pos(mu.Pos()), "dominated by build err == nil", "application id registered although the entry could not be built")
		})
	}
	for _, name := range []string{"configureApplicationMeter", "configureSessionMeter"} {
		f := up(name)
		fn := w.FuncName(f)
		// on a failed ApplyMeterEntries every allocated cell is released (the closure is called on the error edge)
		var apply *ssa.Call
		allInstrs(f, func(i ssa.Instruction) {
			if c, ok := i.(*ssa.Call); ok && staticCallee(c) != nil && staticCallee(c).Name() == "ApplyMeterEntries" {
				apply = c
			}
		})
		if apply == nil {
			r.bad("R15.3", fn, "meter write present", w.Pos(f.Pos()), "no ApplyMeterEntries call")
			continue
		}
		// error returns after the write pass through a release
		for _, ret := range returnsOf(f) {
			if isNilConst(res(ret, 1)) {
				continue
			}
			if reach(f, apply, func(i ssa.Instruction) bool { return i == ssa.Instruction(ret) }, nil, nil) == nil {
				continue
			}
			miss := reach(f, apply, func(i ssa.Instruction) bool { return i == ssa.Instruction(ret) }, func(i ssa.Instruction) bool {
				c, ok := i.(ssa.CallInstruction)
				if !ok {
					return false
				}
				callee := staticCallee(c)
				if callee == nil {
					return false
				}
				if callee == relApp || callee == relSess {
					return true
				}
				for _, cc := range withClosures(callee) {
					if callee.Parent() != f {
						continue
					}
					if len(callsTo(cc, relApp))+len(callsTo(cc, relSess)) > 0 {
						return true
					}
					// through a function value that is one of the two release methods
					via := false
					allInstrs(cc, func(j ssa.Instruction) {
						cj, ok := j.(ssa.CallInstruction)
						if !ok || cj.Common().IsInvoke() {
							return
						}
						if phi, ok := cj.Common().Value.(*ssa.Phi); ok {
							for _, e := range phi.Edges {
								if g := closureOf(e); g == relApp || g == relSess {
									via = true
								}
							}
						}
					})
					if via {
						return true
					}
				}
				return false
			}, nil)
			r.check(miss == nil, "R15.3", fn, "a failed meter write gives the cells back", w.Pos(ret.Pos()), "release on the error path", "a failed meter write returns an error without releasing the cells it allocated")
		}
	}

	// ---------- R15.4 error propagation
	writers := []string{"ApplyTableEntries", "ApplyMeterEntries", "WriteBatchReq", "WriteReq"}
	isWrite := func(c *ssa.Call) bool {
		callee := staticCallee(c)
		if callee == nil || callee.Signature.Recv() == nil || rootTypeName(callee.Signature.Recv().Type()) != "P4rtClient" {
			return false
		}
		for _, n := range writers {
			if callee.Name() == n {
				return true
			}
		}
		return false
	}
	nW := 0
	for _, name := range []string{"modifyUP4ForwardingConfiguration", "addOrUpdateGTPTunnelPeer", "configureApplicationMeter", "configureSessionMeter", "resetCounter", "initInterfaces", "AddSliceInfo"} {
		f := up(name)
		fn := w.FuncName(f)
		allInstrs(f, func(i ssa.Instruction) {
			c, ok := i.(*ssa.Call)
			if !ok || !isWrite(c) {
				return
			}
			nW++
			// returned directly?
			direct := false
			for _, ret := range returnsOf(f) {
				for k := range ret.Results {
					if res(ret, k) == ssa.Value(c) {
						direct = true
					}
				}
			}
			if direct {
				r.ok("R15.4", fn, "write error returned to the caller", w.Pos(c.Pos()), "returned directly")
				return
			}
			if name == "modifyUP4ForwardingConfiguration" {
				ruleC15StatusFilter(w, r, f, c)
				return
			}
			for _, ret := range returnsOf(f) {
				last := len(ret.Results) - 1
				if last < 0 || !isNilConst(res(ret, last)) {
					continue
				}
				if reach(f, c, func(j ssa.Instruction) bool { return j == ssa.Instruction(ret) }, nil, nil) == nil {
					continue
				}
				g := errGuarded(f, c, c, func(j ssa.Instruction) bool { return j == ssa.Instruction(ret) })
				r.check(g, "R15.4", fn, "success only if the write succeeded", w.Pos(c.Pos()), "nil return unreachable unless err == nil", "a failed P4Runtime write can still end in success")
			}
		})
	}
	r.floor("R15.4 P4Runtime write sites", nW, 6)
	// callers propagate
	for _, x := range []struct {
		fn      string
		callees []string
	}{
		{"sendCreate", []string{"allocateCounterID", "resetCounter", "configureMeters", "updateTunnelPeersBasedOnFARs", "modifyUP4ForwardingConfiguration"}},
		{"sendUpdate", []string{"updateTunnelPeersBasedOnFARs", "modifyUP4ForwardingConfiguration"}},
		{"sendDelete", []string{"modifyUP4ForwardingConfiguration"}},
		{"configureMeters", []string{"configureApplicationMeter", "configureSessionMeter"}},
		{"updateTunnelPeersBasedOnFARs", []string{"addOrUpdateGTPTunnelPeer"}},
	} {
		f := up(x.fn)
		fn := w.FuncName(f)
		for _, cn := range x.callees {
			callee := up(cn)
			calls := callsTo(f, callee)
			r.check(len(calls) >= 1, "R15.4", fn, "calls "+cn, w.Pos(f.Pos()), "present", x.fn+" no longer calls "+cn)
			for _, ci := range calls {
				c := ci.(*ssa.Call)
				ev := errResult(c)
				if ev == nil {
					r.bad("R15.4", fn, "error of "+cn+" is used", w.Pos(c.Pos()), "the error result of "+cn+" is discarded")
					continue
				}
				for _, ret := range returnsOf(f) {
					last := len(ret.Results) - 1
					if last < 0 || !isNilConst(res(ret, last)) {
						continue
					}
					if reach(f, c, func(j ssa.Instruction) bool { return j == ssa.Instruction(ret) }, nil, nil) == nil {
						continue
					}
					g := errGuarded(f, c, ev, func(j ssa.Instruction) bool { return j == ssa.Instruction(ret) })
					r.check(g, "R15.4", fn, "a failing "+cn+" fails "+x.fn, w.Pos(c.Pos()), "nil return unreachable unless err == nil", x.fn+" can succeed although "+cn+" failed")
				}
			}
		}
	}
	ruleC15Ownership(w, r)
	// SendMsgToUPF: accepted only when no error
	{
		f := up("SendMsgToUPF")
		fn := w.FuncName(f)
		accepted := w.ConstInt(P, iePkg, "CauseRequestAccepted")
		rejectedK := w.ConstInt(P, iePkg, "CauseRequestRejected")
		errNilEdge := func(a, b *ssa.BasicBlock) bool {
			x, op, y, ok := edgeFact(a, b)
			if !ok || op != token.EQL || !isNilConst(y) || !isErrorType(x.Type()) {
				return false
			}
			return strings.Contains(symOf(x).String(), "send")
		}
		for _, ret := range returnsOf(f) {
			k, isK := constInt(res(ret, 0))
			if phi, isPhi := res(ret, 0).(*ssa.Phi); isPhi && !isK {
				// a single exit that returns a cause variable: every constant the variable can hold is judged
				// where it enters the variable's φs — a failure cause must be the one the handlers test for,
				// and 'accepted' must go through an err == nil edge on its way into (or between) the φs
				type phiEdge struct{ a, b *ssa.BasicBlock }
				allConst := true
				seen := map[*ssa.Phi]bool{}
				var walk func(p *ssa.Phi, chain []phiEdge)
				walk = func(p *ssa.Phi, chain []phiEdge) {
					if seen[p] || len(chain) > 4 {
						allConst = false
						return
					}
					seen[p] = true
					for i, e := range p.Edges {
						ch := append(append([]phiEdge{}, chain...), phiEdge{p.Block().Preds[i], p.Block()})
						if p2, ok := e.(*ssa.Phi); ok {
							walk(p2, ch)
							continue
						}
						c, ok := constInt(e)
						if !ok {
							allConst = false
							continue
						}
						if c != accepted {
							r.check(c == rejectedK, "R15.4", fn, "a failed operation is reported with the cause the handlers test for", w.Pos(ret.Pos()), "CauseRequestRejected", fmt.Sprintf("the UP4 plug-in reports a failure with cause %d: the session handlers only treat cause %d (Request rejected) as a failure, so the request is answered 'accepted' and the session is stored although its write failed", c, rejectedK))
							continue
						}
						g := false
						for _, pe := range ch {
							if errNilEdge(pe.a, pe.b) || (len(pe.a.Instrs) > 0 && onlyVia(f, pe.a.Instrs[len(pe.a.Instrs)-1], errNilEdge)) {
								g = true
							}
						}
						r.check(g, "R15.4", fn, "accepted only when create/update/delete returned no error", w.Pos(ret.Pos()), "dominated by err == nil", "the UP4 plug-in can answer 'accepted' although the operation returned an error")
					}
				}
				walk(phi, nil)
				if allConst {
					continue
				}
			}
			if !isK {
				r.bad("R15.4", fn, "cause is a constant", w.Pos(ret.Pos()), "cause "+symOf(res(ret, 0)).String())
				continue
			}
			if k != accepted {
				// the handlers recognise a failed datapath operation by cause == Request rejected and nothing else
				rejected := w.ConstInt(P, iePkg, "CauseRequestRejected")
				r.check(k == rejected, "R15.4", fn, "a failed operation is reported with the cause the handlers test for", w.Pos(ret.Pos()), "CauseRequestRejected", fmt.Sprintf("the UP4 plug-in reports a failure with cause %d: the session handlers only treat cause %d (Request rejected) as a failure, so the request is answered 'accepted' and the session is stored although its write failed", k, rejected))
				continue
			}
			// the err variable (φ of the send* results) must be nil on the way
			g := onlyVia(f, ret, func(a, b *ssa.BasicBlock) bool {
				x, op, y, ok := edgeFact(a, b)
				if !ok || op != token.EQL || !isNilConst(y) || !isErrorType(x.Type()) {
					return false
				}
				return strings.Contains(symOf(x).String(), "send")
			})
			r.check(g, "R15.4", fn, "accepted only when create/update/delete returned no error", w.Pos(ret.Pos()), "dominated by err == nil", "the UP4 plug-in can answer 'accepted' although the operation returned an error")
		}
	}
	// convertError: nil only for nil
	{
		f := w.Fn(P, "pfcpiface.convertError")
		for _, ret := range returnsOf(f) {
			if !isNilConst(res(ret, 0)) {
				continue
			}
			g := onlyVia(f, ret, func(a, b *ssa.BasicBlock) bool {
				return nilnessEdge(a, b, func(x ssa.Value) bool { return x == ssa.Value(f.Params[0]) }, true)
			})
			r.check(g, "R15.4", w.FuncName(f), "convertError returns nil only for a nil error", w.Pos(ret.Pos()), "dominated by err == nil", "convertError can turn a failure into success")
		}
	}
}

// errGuardedStrict: target is dominated by the call and unreachable from it unless the
// call's error was established nil.
func errGuardedStrict(fn *ssa.Function, call *ssa.Call, target ssa.Instruction) bool {
	ev := errResult(call)
	if ev == nil {
		return false
	}
	if !instrDominates(call, target) {
		return false
	}
	return errGuarded(fn, call, ev, func(i ssa.Instruction) bool { return i == target })
}

// errNilOnEveryPathTo: the same guarantee as errGuardedStrict, decided path by path: on every feasible
// path of fn that executes target, call was executed before it and in between an edge established that the
// call's error is nil. Path by path a φ is the value that came in over the edge the path took, which is what
// it takes to see that an error variable shared by several fallible steps (each later step run only while the
// variable is still nil, one test after the last) is, where it is found nil, the last step's error — a path
// that skipped the call carries an earlier step's non-nil error into the test and is infeasible (pathAtoms).
// False when the paths cannot be enumerated.
func errNilOnEveryPathTo(fn *ssa.Function, call *ssa.Call, target ssa.Instruction) bool {
	ev := errResult(call)
	if ev == nil {
		return false
	}
	all := true
	complete := enumPaths(fn, 1, 5000, func(p *Path) {
		at := -1
		for i, b := range p.Blocks {
			if b == target.Block() {
				at = i
			}
		}
		if at < 0 || !all {
			return
		}
		if _, feasible := pathAtoms(p); !feasible {
			return
		}
		from := -1
		for i := 0; i <= at; i++ {
			if p.Blocks[i] == call.Block() && (i < at || idxIn(call.Block(), call) < idxIn(target.Block(), target)) {
				from = i
			}
		}
		if from < 0 {
			all = false
			return
		}
		for i := from; i < at; i++ {
			x, op, y, ok := edgeFact(p.Blocks[i], p.Blocks[i+1])
			if !ok || op != token.EQL {
				continue
			}
			x, y = resolveAt(p, i, x), resolveAt(p, i, y)
			if (x == ev && isNilConst(y)) || (y == ev && isNilConst(x)) {
				return
			}
		}
		all = false
	})
	return complete && all
}

// rootedPath renders a FieldAddr chain with the root parameter's *name* (not its type), so
// that all.pdrs[].ctrID and updated.pdrs[].ctrID differ.
func rootedPath(v ssa.Value) string {
	switch x := v.(type) {
	case *ssa.FieldAddr:
		name := "?"
		if fv := fieldVar(x); fv != nil {
			name = fv.Name()
		}
		return rootedPath(x.X) + "." + name
	case *ssa.Field:
		name := "?"
		if fv := fieldVar(x); fv != nil {
			name = fv.Name()
		}
		return rootedPath(x.X) + "." + name
	case *ssa.IndexAddr:
		return rootedPath(x.X) + "[]"
	case *ssa.Index:
		return rootedPath(x.X) + "[]"
	case *ssa.UnOp:
		if x.Op == token.MUL {
			return rootedPath(x.X)
		}
	case *ssa.Parameter:
		return x.Name()
	case *ssa.FreeVar:
		return x.Name()
	case *ssa.Alloc:
		// a spilled parameter or a range variable copy
		if st := singleStore(x); st != nil {
			return rootedPath(st.Val)
		}
		if x.Comment != "" {
			return x.Comment
		}
	case *ssa.Convert:
		return rootedPath(x.X)
	case *ssa.Extract:
		if nx, ok := x.Tuple.(*ssa.Next); ok {
			if rg, ok := nx.Iter.(*ssa.Range); ok {
				return rootedPath(rg.X) + "[]"
			}
		}
	}
	return valueText(v)
}

func rootedPathOfValue(v ssa.Value) string { return rootedPath(v) }

// ruleC15StatusFilter: in modifyUP4ForwardingConfiguration the per-update statuses of a
// P4RuntimeError are filtered: OK and ALREADY_EXISTS are tolerated, anything else must end
// in an error return at once; an error with no statuses must not fall through to success.
func ruleC15StatusFilter(w *World, r *Report, f *ssa.Function, apply *ssa.Call) {
	statusFilterRule(w, r, "R15.4", "reject", f, apply)
}

// statusFilterRule: mode "reject" — every status that means a failed write rejects the request (C15, C04);
// mode "gone" — a DELETE of an entry that is already gone does not (C05, C04).
func statusFilterRule(w *World, r *Report, rule, mode string, f *ssa.Function, apply *ssa.Call) {
	fn := w.FuncName(f)
	ev := ssa.Value(apply)
	okCode := w.ConstInt("C15", "google.golang.org/grpc/codes", "OK")
	existsCode := w.ConstInt("C15", "google.golang.org/grpc/codes", "AlreadyExists")
	// the loop over the statuses
	var hdr, body *ssa.BasicBlock
	for _, b := range f.Blocks {
		ifi := blockIf(b)
		if ifi == nil {
			continue
		}
		bo, ok := ifi.Cond.(*ssa.BinOp)
		if !ok || bo.Op != token.LSS {
			continue
		}
		lc, ok := bo.Y.(*ssa.Call)
		if !ok || calleeName(lc) != "builtin.len" {
			continue
		}
		if strings.Contains(symOf(lc.Call.Args[0]).String(), "P4RuntimeError).Get") {
			hdr, body = b, b.Succs[0]
		}
	}
	if hdr == nil {
		r.bad(rule, fn, "per-update statuses of a P4Runtime error are examined", w.Pos(apply.Pos()), "no loop over P4RuntimeError.Get() found: a failed batch write is not analysed")
		return
	}
	// what the filter does with one status, for every combination of status code and write method: the loop
	// body is walked with the edges that contradict the combination cut; it either goes back to the loop
	// head (the status is tolerated) or leaves through an error return (the request is rejected)
	notFound := w.ConstInt("C15", "google.golang.org/grpc/codes", "NotFound")
	const p4pkg = "github.com/p4lang/p4runtime/go/p4/v1"
	methods := []struct {
		name string
		k    int64
	}{{"INSERT", w.ConstInt("C15", p4pkg, "Update_INSERT")}, {"MODIFY", w.ConstInt("C15", p4pkg, "Update_MODIFY")}, {"DELETE", w.ConstInt("C15", p4pkg, "Update_DELETE")}}
	codes := []struct {
		name string
		k    int64
	}{{"OK", okCode}, {"ALREADY_EXISTS", existsCode}, {"NOT_FOUND", notFound}, {"any other code", -1}}
	if len(body.Instrs) == 0 {
		r.bad(rule, fn, "the status loop has a body", w.Pos(apply.Pos()), "empty loop body")
		return
	}
	n := 0
	for _, m := range methods {
		for _, c := range codes {
			// the loop body is interpreted for this combination: comparisons of the status code and of the write
			// method with constants are the atoms, everything boolean built from them is computed
			atomV := func(v ssa.Value) (bool, bool, bool) {
				bo, ok := v.(*ssa.BinOp)
				if !ok || (bo.Op != token.EQL && bo.Op != token.NEQ) {
					return false, false, false
				}
				x, y := bo.X, bo.Y
				k, isK := constInt(y)
				if !isK {
					x, y = bo.Y, bo.X
					k, isK = constInt(y)
				}
				if !isK {
					return false, false, false
				}
				var truth bool
				if call, isCall := stripConv(x).(*ssa.Call); isCall && strings.HasSuffix(calleeName(call), ".GetCanonicalCode") {
					truth = c.k == k
				} else if strings.HasSuffix(symOf(x).String(), "methodType") {
					truth = m.k == k
				} else {
					return false, false, false
				}
				if bo.Op == token.NEQ {
					truth = !truth
				}
				return truth, true, true
			}
			first := body.Instrs[0]
			ret, decided := interpretRegion(f, body, hdr, atomV, func(b *ssa.BasicBlock) bool { return b == hdr })
			if !decided {
				r.bad(rule, fn, fmt.Sprintf("status %s on %s is decided by the status code and the write method", c.name, m.name), w.Pos(first.Pos()), "the filter's decision depends on something the rule cannot evaluate")
				continue
			}
			tolerated := ret == nil
			rejected := ret != nil && !isNilConst(res(ret, 0))
			accepted := ret != nil && isNilConst(res(ret, 0))
			n++
			desc := fmt.Sprintf("status %s on %s", c.name, m.name)
			mustReject := c.k == -1 || (c.k == notFound && m.name != "DELETE")
			switch {
			case mode == "reject" && mustReject:
				r.check(rejected && !tolerated && !accepted, rule, fn, desc+" rejects the request", w.Pos(first.Pos()), "error return without re-entering the loop", "after "+desc+" the filter goes on (or returns success): a failed write passes as accepted")
			case mode == "reject" && c.k == okCode:
				r.check(tolerated && !rejected, rule, fn, desc+" is not a failure", w.Pos(first.Pos()), "next status", desc+" is treated as a failure")
			case mode == "gone" && c.k == notFound && m.name == "DELETE":
				r.check(tolerated && !rejected, rule, fn, "a DELETE of an entry that is already gone is not a failure", w.Pos(first.Pos()), "NOT_FOUND tolerated under DELETE", "the filter treats NOT_FOUND on DELETE as a failure. All uplink (downlink) PDRs of a session share one sessions_uplink (sessions_downlink) entry — its key holds no PDR ID; on INSERT the duplicate is tolerated (ALREADY_EXISTS) — so deleting a session with two PDRs of one direction removes the shared entry with the first PDR and fails on the second: the deletion is rejected half way, the session can never be deleted, its remaining entries, counter and meter cells and tunnel-peer reference stay for ever")
			}
		}
	}
	r.floor(rule+" status × method combinations", n, 12)
	// empty status list: the loop's exit edge must not lead to success when err != nil
	exit := hdr.Succs[1]
	if len(exit.Instrs) > 0 {
		// is there a guard on the number of statuses before the loop?
		guard := false
		for _, b := range f.Blocks {
			for _, s := range b.Succs {
				x, op, y, ok := edgeFact(b, s)
				if !ok {
					continue
				}
				if lc, isCall := x.(*ssa.Call); isCall && calleeName(lc) == "builtin.len" && strings.Contains(symOf(lc.Call.Args[0]).String(), "P4RuntimeError).Get") {
					k, isK := constInt(y)
					if isK && k == 0 && (op == token.EQL || op == token.LEQ) {
						// the == 0 edge must end in an error
						if len(s.Instrs) > 0 && reach(f, s.Instrs[0], func(i ssa.Instruction) bool {
							if i.Block() == hdr {
								return true
							}
							ret, ok := i.(*ssa.Return)
							return ok && isNilConst(res(ret, 0))
						}, nil, nil) == nil {
							guard = true
						}
					}
				}
			}
		}
		r.check(guard, rule, fn, "a P4Runtime error without per-update statuses is a failure", w.Pos(apply.Pos()), "len(statuses) == 0 → error", "a P4RuntimeError with an empty status list falls through the filter loop and the failed write is treated as success")
	}
	_ = ev
}

// ruleC15Ownership: see R15.5.
func ruleC15Ownership(w *World, r *Report) {
	const P = "C15"
	rem := w.Fn(P, "pfcpiface.(*UP4).removeInternalApplicationIDAndGetP4rtEntry")
	n := 0
	for _, e := range w.CG().callersOf(rem) {
		f := e.Caller
		fn := w.FuncName(f)
		if strings.HasPrefix(fn, "test/") {
			continue
		}
		n++
		root := f
		for root.Parent() != nil {
			root = root.Parent()
		}
		okD := false
		if root.Name() == "sendDelete" {
			okD = true
		} else if f == root {
			okD = onlyVia(f, e.Site, func(a, b *ssa.BasicBlock) bool {
				x, op, y, ok := edgeFact(a, b)
				if !ok || op != token.EQL {
					return false
				}
				k, isK := constInt(y)
				p, isP := x.(*ssa.Parameter)
				return isK && k == 3 && isP && p.Name() == "methodType"
			})
		}
		r.check(okD, "R15.5", fn, "an application reference is given up only where the PDR's entries are deleted", w.Pos(e.Site.Pos()), "under methodType == DELETE", "the application reference of a PDR is released outside the DELETE path (e.g. as roll-back of a failed MODIFY, whose references belong to the live session since its establishment): the application ID goes back to the pool while the live session's entries still match on it")
	}
	r.floor("R15.5 application reference releases", n, 1)
	// up4.p4client
	k := 0
	for _, a := range w.accessesOf(map[string]bool{"UP4": true}) {
		if a.fld.Name() != "p4client" || a.what != "store" {
			continue
		}
		k++
		st := a.ins.(*ssa.Store)
		good := false
		if ex, ok := st.Val.(*ssa.Extract); ok && ex.Index == 0 {
			if c, ok := ex.Tuple.(*ssa.Call); ok && staticCallee(c) != nil && staticCallee(c).Name() == "CreateChannel" {
				if ev := errResult(c); ev != nil && errGuarded(a.fn, c, ev, func(i ssa.Instruction) bool { return i == a.ins }) {
					good = true
				}
			}
		}
		r.check(good, "R15.5", w.FuncName(a.fn), "up4.p4client is only ever assigned a successfully created client", w.Pos(a.ins.Pos()), "CreateChannel() with err == nil", "up4.p4client is assigned "+symOf(st.Val).String()+": tryConnect takes a nil client (or one without P4Info) for the first connect of the process and re-initialises every ID pool, while the live sessions keep their cells — the same cells are then handed to new sessions")
	}
	r.floor("R15.5 stores to up4.p4client", k, 1)
	// and tryConnect clears exactly under that test or the configured flag
	tc := w.Fn(P, "pfcpiface.(*UP4).tryConnect")
	init := w.Fn(P, "pfcpiface.(*UP4).initialize")
	for _, c := range callsTo(tc, init) {
		s := symOf(c.Common().Args[1]).String()
		r.check(strings.Contains(s, "p4client") && strings.Contains(s, "P4Info"), "R15.5", w.FuncName(tc), "state is cleared and pools refilled only for a first connect (no client / no pipeline yet)", w.Pos(c.Pos()), trunc80(s), "initialize is told to clear under "+trunc80(s))
	}
}

// idReleaseSites: where g gives an id back to the named pool of UP4: the calls of the pool's release helper
// (nil when the tree has none: the helper is a convenience — a release is the append, wherever it is written)
// and the direct appends to the pool field.
func idReleaseSites(g *ssa.Function, helper *ssa.Function, pool string) []ssa.Instruction {
	var sites []ssa.Instruction
	if helper != nil {
		for _, c := range callsTo(g, helper) {
			sites = append(sites, c.(ssa.Instruction))
		}
	}
	allInstrs(g, func(i ssa.Instruction) {
		if st, ok := i.(*ssa.Store); ok {
			if fa, ok := st.Addr.(*ssa.FieldAddr); ok && fieldVar(fa) != nil && fieldVar(fa).Name() == pool {
				if c, ok := st.Val.(*ssa.Call); ok && calleeName(c) == "builtin.append" {
					sites = append(sites, i)
				}
			}
		}
	})
	return sites
}

// ruleC15TunnelRelease (R15.3; re-filed under C11 as R11.7: the tunnel peer is shared by associations).
func ruleC15TunnelRelease(w *World, r *Report, P string) {
	up := func(name string) *ssa.Function { return w.Fn(P, "pfcpiface.(*UP4)."+name) }
	f := up("addOrUpdateGTPTunnelPeer")
	fn := w.FuncName(f)
	release := w.FnOpt("pfcpiface.(*UP4).unsafeReleaseAllocatedGTPTunnelPeer")
	n := 0
	for _, g := range withClosures(f) {
		// release sites: calls of the release function, and direct returns of an ID to the queue
		for _, c := range idReleaseSites(g, release, "tunnelPeerIDsPool") {
			n++
			// "this call allocated the id" is the lookup's absence, tested directly or carried in a local
			// that can hold the tested value only when the absence branch was taken (boolImplies).
			absent := func(v ssa.Value, truth bool) bool {
				return !truth && strings.Contains(symOf(v).String(), "UP4.tunnelPeerIDs[]#ok")
			}
			okGuard := onlyVia(g, c, func(a, b *ssa.BasicBlock) bool {
				v, truth, ok := boolEdge(a, b)
				return ok && boolImplies(v, truth, absent)
			})
			r.check(okGuard, "R15.3", w.FuncName(g), "error path releases the tunnel-peer id only if this call allocated it (!exists)", w.Pos(c.Pos()), "dominated by the lookup's absence", "a failed write releases the id of a tunnel peer that already existed: a live session's id goes back to the free queue")
		}
	}
	r.floor("R15.3 tunnel-peer release-on-error sites", n, 1)
	// the shared map is updated only after the write succeeded
	var apply *ssa.Call
	allInstrs(f, func(i ssa.Instruction) {
		if c, ok := i.(*ssa.Call); ok && staticCallee(c) != nil && staticCallee(c).Name() == "ApplyTableEntries" {
			apply = c
		}
	})
	allInstrs(f, func(i ssa.Instruction) {
		mu, ok := i.(*ssa.MapUpdate)
		if !ok || !strings.HasSuffix(symOf(mu.Map).String(), "UP4.tunnelPeerIDs") {
			return
		}
		g := apply != nil && (errGuardedStrict(f, apply, mu) || errNilOnEveryPathTo(f, apply, mu))
		r.check(g, "R15.3", fn, "tunnel peer registered only after its write succeeded", w.Pos(mu.Pos()), "dominated by ApplyTableEntries == nil", "the tunnel peer is registered before the write: a failed write leaves a registered peer / lets the error path release a shared id")
	})
}

// edgeFeasible: false when the condition that selects the edge a→b is a comparison of a field of a
// struct literal built in this function with a constant, and the literal's field (its stored constant,
// or the zero value when the literal does not mention it) decides the other way.
func edgeFeasible(a, b *ssa.BasicBlock) bool {
	x, op, y, ok := edgeFact(a, b)
	if !ok {
		// an unconditional edge out of a block with one way in: that way decides
		if blockIf(a) == nil && len(a.Preds) == 1 && a.Preds[0] != a {
			return edgeFeasible(a.Preds[0], a)
		}
		return true
	}
	k, isK := constInt(y)
	if !isK {
		return true
	}
	v, known := literalField(x)
	if !known {
		return true
	}
	switch op {
	case token.EQL:
		return v == k
	case token.NEQ:
		return v != k
	}
	return true
}

// literalField: the constant a field of a local struct literal holds.
func literalField(v ssa.Value) (int64, bool) {
	switch x := v.(type) {
	case *ssa.Field:
		if ld, ok := x.X.(*ssa.UnOp); ok && ld.Op == token.MUL {
			if al, ok := ld.X.(*ssa.Alloc); ok {
				return literalFieldOf(al, x.Field, 0)
			}
		}
	case *ssa.UnOp:
		if x.Op == token.MUL {
			if fa, ok := x.X.(*ssa.FieldAddr); ok {
				if al, ok := fa.X.(*ssa.Alloc); ok {
					return literalFieldOf(al, fa.Field, 0)
				}
			}
		}
	}
	return 0, false
}

// literalFieldOf: field #field of the struct in cell al, when the cell is only ever filled by a literal
// (field stores of constants; an unmentioned field is zero) or by one copy of such a cell. The cell may
// be captured by function literals as long as they do not write the field either.
func literalFieldOf(al *ssa.Alloc, field int, depth int) (int64, bool) {
	if depth > 3 || al.Referrers() == nil {
		return 0, false
	}
	val, have := int64(0), false
	var copyOf *ssa.Alloc
	okAll := true
	var scan func(cell ssa.Value, d int)
	scan = func(cell ssa.Value, d int) {
		refs := cell.Referrers()
		if refs == nil || d > 3 {
			okAll = false
			return
		}
		for _, ref := range *refs {
			switch r := ref.(type) {
			case *ssa.FieldAddr:
				for _, rr := range *r.Referrers() {
					st, isSt := rr.(*ssa.Store)
					if !isSt {
						if _, isLd := rr.(*ssa.UnOp); isLd {
							continue
						}
						if r.Field != field {
							continue // another field's address is used elsewhere
						}
						okAll = false
						return
					}
					if r.Field != field || st.Addr != ssa.Value(r) {
						continue
					}
					k, isK := constInt(st.Val)
					if !isK || have {
						okAll = false
						return
					}
					val, have = k, true
				}
			case *ssa.UnOp:
				// whole-struct load
			case *ssa.Store:
				if r.Addr != cell {
					okAll = false // the cell's address is stored somewhere
					return
				}
				ld, ok := r.Val.(*ssa.UnOp)
				if !ok || ld.Op != token.MUL || copyOf != nil {
					okAll = false
					return
				}
				src, _ := cellOf(ld.X).(*ssa.Alloc)
				if src == nil {
					okAll = false
					return
				}
				copyOf = src
			case *ssa.MakeClosure:
				fn, _ := r.Fn.(*ssa.Function)
				if fn == nil {
					okAll = false
					return
				}
				for bi, b := range r.Bindings {
					if b == cell && bi < len(fn.FreeVars) {
						scan(fn.FreeVars[bi], d+1)
					}
				}
			case *ssa.DebugRef:
			default:
				okAll = false // passed somewhere
				return
			}
		}
	}
	scan(al, 0)
	if !okAll {
		return 0, false
	}
	if copyOf != nil {
		if have {
			return 0, false
		}
		return literalFieldOf(copyOf, field, depth+1)
	}
	return val, true
}
