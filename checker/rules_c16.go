package main

import (
	"fmt"
	"go/ast"
	"go/constant"
	"go/token"
	"go/types"
	"sort"
	"strconv"
	"strings"

	"golang.org/x/tools/go/ssa"
)

func init() { rules["C16"] = ruleC16 }

const p4v1 = "github.com/p4lang/p4runtime/go/p4/v1"
const p4constPkg = modPath + "/internal/p4constants"

// goWidth: bits of the byte string convertValueToBinary produces for a Go type, and the
// maximum value the type can hold.
func goWidth(t types.Type) (bits int64, ok bool) {
	b, isB := t.Underlying().(*types.Basic)
	if !isB {
		return 0, false
	}
	switch b.Kind() {
	case types.Bool:
		return 1, true
	case types.Uint8:
		return 8, true
	case types.Uint16:
		return 16, true
	case types.Uint32:
		return 32, true
	case types.Uint64:
		return 64, true
	case types.Int:
		return 32, true // encoded as uint32(value)
	}
	return 0, false
}

// helper call descriptor on a builder path
type p4Use struct {
	kind  string // EXACT, LPM, TERNARY, RANGE, PARAM
	name  string
	vals  []ssa.Value
	call  *ssa.Call
	extra ssa.Value // LPM prefix length
}

// valueFits decides whether v always fits into bw bits.
func valueFits(v ssa.Value, bw int64, p4name string, assumptions map[string]int64, used map[string]bool) (bool, string) {
	raw := v
	if mi, ok := v.(*ssa.MakeInterface); ok {
		raw = mi.X
	}
	if k, isK := constInt(raw); isK {
		if bw >= 63 || (k >= 0 && k < (int64(1)<<uint(bw))) {
			return true, fmt.Sprintf("constant %d fits %d bits", k, bw)
		}
		return false, fmt.Sprintf("constant %d does not fit %d bits", k, bw)
	}
	if phi, ok := raw.(*ssa.Phi); ok {
		all := true
		var mx int64
		for _, e := range phi.Edges {
			k, isK := constInt(e)
			if !isK {
				all = false
				break
			}
			if k > mx {
				mx = k
			}
		}
		if all {
			if mx < (int64(1) << uint(bw)) {
				return true, fmt.Sprintf("constants ≤ %d fit %d bits", mx, bw)
			}
			return false, fmt.Sprintf("constant %d does not fit %d bits", mx, bw)
		}
	}
	gw, ok := goWidth(raw.Type())
	if !ok {
		return false, "Go type " + raw.Type().String() + " is not encodable by convertValueToBinary"
	}
	if gw <= bw {
		return true, fmt.Sprintf("%s (%d bits) ≤ %d bits", raw.Type().String(), gw, bw)
	}
	if mx, ok := assumptions[p4name]; ok && gw <= 8 {
		if mx < (int64(1) << uint(bw)) {
			used[fmt.Sprintf("%s ≤ %d (bounded by the property's own quantifier; %s into %d bits)", p4name, mx, raw.Type().String(), bw)] = true
			return true, fmt.Sprintf("assumption %s ≤ %d", p4name, mx)
		}
	}
	return false, fmt.Sprintf("%s (%d bits) may exceed the %d-bit field %s", raw.Type().String(), gw, bw, p4name)
}

func constString(v ssa.Value) (string, bool) {
	c, ok := v.(*ssa.Const)
	if !ok || c.Value == nil {
		return "", false
	}
	s := c.Value.ExactString()
	if len(s) >= 2 && s[0] == '"' {
		u, err := strconv.Unquote(s)
		if err == nil {
			return u, true
		}
	}
	return "", false
}

func ruleC16(w *World, r *Report) {
	const P = "C16"
	r.Explanation = "Every builder path of P4rtTranslator that returns an entry without error is enumerated on the SSA CFG and checked against the P4Info parsed from conf/p4/bin/p4info.txt on this run: R16.1 TableId names a table; R16.2 every with*MatchField names a field of that table with the helper's match kind, none twice; R16.3 the Go type / constant of each value fits the declared bit width (slice_id, tc, qfi rely on the bounds the property itself states, recorded as assumptions), LPM prefix ≤ width; R16.4 ActionId is in the table's action_refs and not default-only; R16.5 withActionParam names = the action's declared parameter set; " +
		"R16.6 tables with ternary/range fields get a priority whose minimum under verifyPDR's guard is ≥ 1 (interval argument), others 0; R16.7 meter/counter indices come from pools filled by loops bounded by the P4Info size of the same array, slice/TC index bound ≤ slice meter size, pre/post counters equal-sized; R16.8 every constant and id→name map entry of internal/p4constants agrees with the P4Info and every P4Info object of a generated kind has its constant; R16.9 the generator ranges over maps only to collect keys that are sorted before use, and reads no clock/random/environment."
	r.Explanation += " R16.8 converter bytes reach match fields and parameters unchanged (leading zeros may be stripped); R16.9 the value passed as tc is the configured class itself (QFIToTC[qfi] / DefaultTC), so the property's bound tc ≤ 3 applies to it."
	r.Explanation += " R16.9 (cont.) the sliceID argument of every builder is the configured slice; R16.10 the generator's output file is written with truncation."
	r.Explanation += " R16.9 (cont.) no os.Args in the generator; keys may be collected by indexed stores; R16.11 ClearTables sends back the entity it read."
	r.NotDecided = "values bounded only by the property's assumptions (QFI ≤ 63, slice ≤ 15, TC ≤ 3) are assumed, not proved; what the switch does with valid writes"
	info := loadP4Info(w.Repo, P)
	assumptions := map[string]int64{"slice_id": 15, "tc": 3, "qfi": 63}
	usedAssumptions := map[string]bool{}

	helperKinds := map[string]string{
		"pfcpiface.(*P4rtTranslator).withExactMatchField":   "EXACT",
		"pfcpiface.(*P4rtTranslator).withLPMField":          "LPM",
		"pfcpiface.(*P4rtTranslator).withTernaryMatchField": "TERNARY",
		"pfcpiface.(*P4rtTranslator).withRangeMatchField":   "RANGE",
		"pfcpiface.(*P4rtTranslator).withActionParam":       "PARAM",
	}
	for n := range helperKinds {
		w.Fn(P, n)
	}
	// encodable types: derived from convertValueToBinary's type switch
	conv := w.Fn(P, "pfcpiface.convertValueToBinary")
	encodable := map[string]bool{}
	allInstrs(conv, func(i ssa.Instruction) {
		if ta, ok := i.(*ssa.TypeAssert); ok {
			encodable[ta.AssertedType.String()] = true
		}
	})
	r.floor("R16.3 types encodable by convertValueToBinary", len(encodable), 6)

	// builders: functions that allocate a p4.TableEntry literal
	var builders []*ssa.Function
	for _, f := range w.Funcs {
		if f.Pkg == nil || f.Pkg.Pkg.Path() != pfcpPkg || f.Parent() != nil {
			continue
		}
		has := false
		allInstrs(f, func(i ssa.Instruction) {
			if al, ok := i.(*ssa.Alloc); ok && typeName(al.Type()) == "*"+p4v1+".TableEntry" {
				has = true
			}
		})
		if !has {
			continue
		}
		// only those that set match fields or actions through the helpers
		usesHelper := false
		allInstrs(f, func(i ssa.Instruction) {
			if c, ok := i.(*ssa.Call); ok {
				if callee := staticCallee(c); callee != nil && helperKinds[w.FuncName(callee)] != "" {
					usesHelper = true
				}
			}
		})
		if usesHelper {
			builders = append(builders, f)
		}
	}
	r.floor("R16 entry builders", len(builders), 7)
	totalPaths := 0
	for _, f := range builders {
		totalPaths += ruleC16Builder(w, r, info, f, helperKinds, encodable, assumptions, usedAssumptions)
	}
	r.floor("R16 successful builder paths", totalPaths, 12)
	r.Extra["builder_paths"] = totalPaths

	ruleC16Priority(w, r, info)
	ruleC16Indices(w, r, info)
	ruleC16Constants(w, r, info)
	ruleC16Generator(w, r)
	ruleTranslatorBytes(w, r, "C16", "R16.8")
	ruleC16AssumedArgs(w, r)
	ruleC16GeneratorOutput(w, r)
	ruleClearDeletesWhatItRead(w, r, "C16", "R16.11")
	for a := range usedAssumptions {
		r.Assumptions = append(r.Assumptions, a)
	}
	sort.Strings(r.Assumptions)
}

func ruleC16Builder(w *World, r *Report, info *P4Info, f *ssa.Function, helperKinds map[string]string, encodable map[string]bool, assumptions map[string]int64, used map[string]bool) int {
	fn := w.FuncName(f)
	// TableId
	var tableID int64 = -1
	for _, st := range fieldStores(f, "TableEntry")["TableId"] {
		if k, ok := constInt(st.Val); ok {
			tableID = k
		}
	}
	tb := info.table(tableID)
	if !r.check(tb != nil, "R16.1", fn, "TableId names a table of the P4Info", w.Pos(f.Pos()), fmt.Sprintf("table %d", tableID), fmt.Sprintf("TableId %d is not a table of the shipped P4Info", tableID)) {
		return 0
	}
	// action literals: ActionId stores per Action alloc
	type actLit struct {
		alloc ssa.Value
		id    int64
		st    *ssa.Store
	}
	var acts []actLit
	for _, st := range fieldStores(f, "Action")["ActionId"] {
		fa := st.Addr.(*ssa.FieldAddr)
		if typeName(fa.X.Type()) != "*"+p4v1+".Action" {
			continue
		}
		k, _ := constInt(st.Val)
		acts = append(acts, actLit{alloc: fa.X, id: k, st: st})
	}
	npaths := 0
	complete := enumPaths(f, 1, 50000, func(p *Path) {
		ret, _ := p.last().(*ssa.Return)
		if ret == nil || len(ret.Results) != 2 || !isNilConst(res(ret, 1)) || isNilConst(res(ret, 0)) {
			return
		}
		npaths++
		var uses []p4Use
		onPath := map[*ssa.BasicBlock]bool{}
		for _, b := range p.Blocks {
			onPath[b] = true
		}
		p.instrs(func(i ssa.Instruction) {
			c, ok := i.(*ssa.Call)
			if !ok {
				return
			}
			callee := staticCallee(c)
			if callee == nil {
				return
			}
			kind := helperKinds[w.FuncName(callee)]
			if kind == "" {
				return
			}
			name, isConst := constString(c.Call.Args[2])
			if !isConst {
				r.bad("R16.2", fn, "helper called with a constant field name", w.Pos(c.Pos()), "match field / parameter name is not a constant")
				return
			}
			u := p4Use{kind: kind, name: name, call: c}
			switch kind {
			case "LPM":
				u.vals = []ssa.Value{c.Call.Args[3]}
				u.extra = c.Call.Args[4]
			case "TERNARY", "RANGE":
				u.vals = []ssa.Value{c.Call.Args[3], c.Call.Args[4]}
			default:
				u.vals = []ssa.Value{c.Call.Args[3]}
			}
			uses = append(uses, u)
		})
		// which action literal is on this path
		var act *actLit
		for i := range acts {
			if onPath[acts[i].st.Block()] {
				if act != nil && act.alloc != acts[i].alloc {
					r.bad("R16.4", fn, "one action per entry", w.Pos(acts[i].st.Pos()), "two action literals on one builder path")
				}
				act = &acts[i]
			}
		}
		pathTag := ""
		if act != nil {
			if a := info.action(act.id); a != nil {
				pathTag = a.Alias
				if pathTag == "" {
					pathTag = a.Name
				}
			} else {
				pathTag = fmt.Sprintf("action#%d", act.id)
			}
		}
		tag := tb.Alias + "/" + pathTag
		seenField := map[string]bool{}
		var params []string
		for _, u := range uses {
			pos := w.Pos(u.call.Pos())
			if u.kind == "PARAM" {
				params = append(params, u.name)
				if act == nil {
					continue
				}
				a := info.action(act.id)
				if a == nil {
					continue
				}
				pp := a.param(u.name)
				if !r.check(pp != nil, "R16.5", fn, tag+" param "+u.name+" belongs to the action", pos, "declared", "action "+a.Name+" has no parameter "+u.name) {
					continue
				}
				ok, why := valueFits(u.vals[0], pp.Bitwidth, u.name, assumptions, used)
				r.check(ok, "R16.3", fn, tag+" param "+u.name+" fits "+fmt.Sprint(pp.Bitwidth)+" bits", pos, why, why)
				rawT := u.vals[0]
				if mi, isMI := rawT.(*ssa.MakeInterface); isMI {
					rawT = mi.X
				}
				r.check(encodable[rawT.Type().String()], "R16.3", fn, tag+" param "+u.name+" has an encodable Go type", pos, rawT.Type().String(), "type "+rawT.Type().String()+" is not handled by convertValueToBinary")
				continue
			}
			mf := tb.field(u.name)
			if !r.check(mf != nil, "R16.2", fn, tag+" field "+u.name+" belongs to the table", pos, "declared", "table "+tb.Name+" has no match field "+u.name) {
				continue
			}
			r.check(mf.Kind == u.kind, "R16.2", fn, tag+" field "+u.name+" match kind "+u.kind, pos, mf.Kind, "field "+u.name+" is "+mf.Kind+" but written with the "+u.kind+" helper")
			r.check(!seenField[u.name], "R16.2", fn, tag+" field "+u.name+" once", pos, "first use", "match field "+u.name+" is set twice on one path")
			seenField[u.name] = true
			for _, v := range u.vals {
				ok, why := valueFits(v, mf.Bitwidth, u.name, assumptions, used)
				r.check(ok, "R16.3", fn, tag+" field "+u.name+" fits "+fmt.Sprint(mf.Bitwidth)+" bits", pos, why, why)
				rawT := v
				if mi, isMI := rawT.(*ssa.MakeInterface); isMI {
					rawT = mi.X
				}
				r.check(encodable[rawT.Type().String()], "R16.3", fn, tag+" field "+u.name+" has an encodable Go type", pos, rawT.Type().String(), "type "+rawT.Type().String()+" is not handled by convertValueToBinary")
			}
			if u.kind == "LPM" {
				// prefix length ≤ width and > 0 on the path
				ok, why := lpmPrefixOK(p, u.extra, mf.Bitwidth)
				r.check(ok, "R16.3", fn, tag+" field "+u.name+" prefix length in (0,"+fmt.Sprint(mf.Bitwidth)+"]", pos, why, why)
			}
			if u.kind == "TERNARY" {
				// value and mask have the same Go type (same encoded length)
				a0, a1 := u.vals[0], u.vals[1]
				if m0, ok := a0.(*ssa.MakeInterface); ok {
					a0 = m0.X
				}
				if m1, ok := a1.(*ssa.MakeInterface); ok {
					a1 = m1.X
				}
				r.check(types.Identical(a0.Type(), a1.Type()), "R16.3", fn, tag+" field "+u.name+" value/mask same width", pos, a0.Type().String(), "ternary value and mask have different Go types")
			}
		}
		// EXACT fields are mandatory in P4Runtime: every exact field of the table must be set
		for _, mf := range tb.Fields {
			if mf.Kind == "EXACT" {
				r.check(seenField[mf.Name], "R16.2", fn, tag+" exact field "+mf.Name+" is set", w.Pos(ret.Pos()), "set on the path", "exact match field "+mf.Name+" of "+tb.Name+" is not set on a successful path")
			}
		}
		if !r.check(act != nil, "R16.4", fn, tag+" has an action", w.Pos(ret.Pos()), "action literal on the path", "entry built without an action") {
			return
		}
		a := info.action(act.id)
		if !r.check(a != nil, "R16.4", fn, tag+" ActionId names an action", w.Pos(act.st.Pos()), fmt.Sprint(act.id), fmt.Sprintf("ActionId %d is not an action of the P4Info", act.id)) {
			return
		}
		allowed := false
		for _, ref := range tb.Refs {
			if ref.ID == act.id && !ref.DefaultOnly {
				allowed = true
			}
		}
		r.check(allowed, "R16.4", fn, tag+" action allowed by the table", w.Pos(act.st.Pos()), a.Name+" ∈ action_refs("+tb.Name+")", "action "+a.Name+" is not an allowed (non-default-only) action of table "+tb.Name)
		var want []string
		for _, pp := range a.Params {
			want = append(want, pp.Name)
		}
		got := append([]string{}, params...)
		sort.Strings(want)
		sort.Strings(got)
		r.check(strings.Join(want, ",") == strings.Join(got, ","), "R16.5", fn, tag+" parameters = declared set", w.Pos(ret.Pos()), strings.Join(got, ","), "action "+a.Name+" wants {"+strings.Join(want, ",")+"}, path sets {"+strings.Join(got, ",")+"}")
		// the action object the params were added to is the one stored in the entry
		for _, u := range uses {
			if u.kind != "PARAM" {
				continue
			}
			target := resolveAlongPath(p, u.call.Call.Args[1])
			same := target == act.alloc
			if !same {
				// accessor form: entry.GetAction().GetAction() with a single action literal in the function
				if c, ok := target.(*ssa.Call); ok && strings.HasSuffix(calleeName(c), ".GetAction") && len(acts) == 1 {
					same = true
				}
			}
			r.check(same, "R16.5", fn, tag+" param "+u.name+" added to the entry's action", w.Pos(u.call.Pos()), "same action object", "parameter added to an action object that is not the entry's action")
		}
	})
	if !complete {
		brokenf("C16", "R16", "too many paths in %s", fn)
	}
	return npaths
}

// lpmPrefixOK: the prefix length value on this path is within (0, width].
func lpmPrefixOK(p *Path, v ssa.Value, width int64) (bool, string) {
	raw := stripConv(v)
	// accepted shapes: K - TrailingZeros32(x) with K == width, guarded > 0 on the path; or the
	// first result of IPMask.Size() (0..32)
	if bo, ok := raw.(*ssa.BinOp); ok && bo.Op == token.SUB {
		k, isK := constInt(bo.X)
		c, isCall := bo.Y.(*ssa.Call)
		if isK && isCall && strings.HasPrefix(calleeName(c), "math/bits.TrailingZeros") {
			if k != width {
				return false, fmt.Sprintf("prefix length is %d - tz(mask), field is %d bits", k, width)
			}
			// guarded by > 0
			guard := false
			for i := 0; i+1 < len(p.Blocks); i++ {
				x, op, y, ok := edgeFact(p.Blocks[i], p.Blocks[i+1])
				if ok && x == ssa.Value(bo) {
					if kk, isKK := constInt(y); isKK && ((op == token.GTR && kk == 0) || (op == token.GEQ && kk == 1) || (op == token.NEQ && kk == 0)) {
						guard = true
					}
				}
			}
			if !guard {
				return false, "LPM field written with a possibly zero prefix length (P4Runtime: omit the field instead)"
			}
			return true, fmt.Sprintf("%d - tz(mask) ∈ (0,%d] under the > 0 guard", k, width)
		}
	}
	if ex, ok := raw.(*ssa.Extract); ok {
		if c, ok := ex.Tuple.(*ssa.Call); ok && calleeName(c) == "(net.IPMask).Size" && ex.Index == 0 {
			return true, "ones of a net.IPMask of an IPv4 net (0..32)"
		}
	}
	if k, isK := constInt(raw); isK {
		return k > 0 && k <= width, fmt.Sprintf("constant %d", k)
	}
	return false, "prefix length " + symOf(v).String() + " has no shape the rule can bound"
}

func ruleC16Priority(w *World, r *Report, info *P4Info) {
	const P = "C16"
	verify := w.Fn(P, "pfcpiface.verifyPDR")
	mod := w.Fn(P, "pfcpiface.(*UP4).modifyUP4ForwardingConfiguration")
	// bound established by verifyPDR: error when precedence OP K
	allowedMax := int64(-1)
	for _, b := range verify.Blocks {
		for _, s := range b.Succs {
			x, op, y, ok := edgeFact(b, s)
			if !ok || !strings.HasSuffix(symOf(x).String(), "pdr.precedence") {
				continue
			}
			k, isK := constInt(y)
			if !isK {
				continue
			}
			// is s the error side? (leads to a return with non-nil error without passing a nil return)
			errSide := false
			if len(s.Preds) == 1 {
				if hit := reach(verify, firstInstr(s), func(i ssa.Instruction) bool {
					ret, ok := i.(*ssa.Return)
					return ok && isNilConst(res(ret, 0))
				}, nil, nil); hit == nil {
					if ret, ok := firstInstr(s).(*ssa.Return); !ok || !isNilConst(res(ret, 0)) {
						errSide = true
					}
				}
			}
			if !errSide {
				continue
			}
			switch op {
			case token.GTR:
				allowedMax = k
			case token.GEQ:
				allowedMax = k - 1
			}
		}
	}
	r.check(allowedMax >= 0, "R16.6", w.FuncName(verify), "verifyPDR bounds the precedence", w.Pos(verify.Pos()), fmt.Sprintf("precedence ≤ %d accepted", allowedMax), "verifyPDR no longer rejects large precedences")
	// verifyPDR's error is honoured before any builder is reached
	vcalls := callsTo(mod, verify)
	cg := w.CG()
	// when the orchestrator does not verify each PDR itself, every caller must have verified the whole
	// list it hands over: a loop over that list with verifyPDR on every iteration, its error returned,
	// dominating the call
	callerVerifies := func(e *Edge) bool {
		caller := e.Caller
		ci, ok := e.Site.(ssa.CallInstruction)
		if !ok {
			return false
		}
		// the pdrs argument of the orchestrator
		var listArg ssa.Value
		for k, p := range mod.Params {
			if p.Name() == "pdrs" && k < len(ci.Common().Args) {
				listArg = ci.Common().Args[k]
			}
		}
		if listArg == nil {
			return false
		}
		want := symOf(listArg).String()
		for _, vc := range callsTo(caller, verify) {
			vcall := vc.(*ssa.Call)
			as := symOf(vcall.Call.Args[0]).String()
			if !strings.HasPrefix(as, want) {
				continue
			}
			// error honoured, and the call site is reachable only after the loop ran over the list
			if errGuarded(caller, vcall, vcall, func(i ssa.Instruction) bool { return i == e.Site }) && reach(caller, vcall, func(i ssa.Instruction) bool { return i == e.Site }, nil, nil) != nil {
				// the loop covers the list: verify sits in a full range loop over `want`
				for _, lp := range rangeLoopsOver(caller, lastSeg(want)) {
					if everyIteration(caller, lp[1], lp[0], func(i ssa.Instruction) bool { return i == ssa.Instruction(vcall) }) && lp[0].Dominates(e.Site.Block()) {
						return true
					}
				}
			}
		}
		return false
	}
	if len(vcalls) == 0 {
		nC := 0
		for _, e := range cg.callersOf(mod) {
			if strings.HasPrefix(w.FuncName(e.Caller), "test/") {
				continue
			}
			// a DELETE removes rules that were verified when they were installed
			isDelete := false
			if ci, ok := e.Site.(ssa.CallInstruction); ok {
				for k, p := range mod.Params {
					if p.Name() == "methodType" && k < len(ci.Common().Args) {
						if v, isK := constInt(ci.Common().Args[k]); isK && v == 3 {
							isDelete = true
						}
					}
				}
			}
			if isDelete {
				continue
			}
			nC++
			r.check(callerVerifies(e), "R16.6", w.FuncName(e.Caller), "PDRs handed to the orchestrator were verified (verifyPDR over the whole list, error returned)", w.Pos(e.Site.Pos()), "verifying loop dominates the call", w.FuncName(e.Caller)+" programs PDRs that verifyPDR never saw (the check is made on another path only): a precedence of 65535 gives priority 0 on a ternary/range table")
		}
		r.check(nC > 0, "R16.6", w.FuncName(mod), "the orchestrator is called", w.Pos(mod.Pos()), fmt.Sprint(nC), "no caller of the orchestrator found")
	}
	for _, f := range w.Funcs {
		if f.Pkg == nil || f.Pkg.Pkg.Path() != pfcpPkg {
			continue
		}
		for _, pst := range fieldStores(f, "TableEntry")["Priority"] {
			var tableID int64 = -1
			for _, st := range fieldStores(f, "TableEntry")["TableId"] {
				if st.Addr.(*ssa.FieldAddr).X == pst.Addr.(*ssa.FieldAddr).X {
					tableID, _ = constInt(st.Val)
				}
			}
			tb := info.table(tableID)
			if tb == nil {
				continue
			}
			fn := w.FuncName(f)
			pos := w.Pos(pst.Pos())
			if !tb.needsPriority() {
				k, isK := constInt(pst.Val)
				r.check(isK && k == 0, "R16.6", fn, tb.Alias+" (exact/LPM only) priority 0", pos, "constant 0", "table "+tb.Name+" has no ternary/range field but gets priority "+symOf(pst.Val).String())
				continue
			}
			// K - precedence, non-wrapping, minimum ≥ 1
			s := symOf(pst.Val)
			raw := stripConv(pst.Val)
			bo, isB := raw.(*ssa.BinOp)
			good := false
			why := s.String()
			if isB && bo.Op == token.SUB {
				k, isK := constInt(bo.X)
				if isK && strings.HasSuffix(symOf(bo.Y).String(), "pdr.precedence") && allowedMax >= 0 {
					min := k - allowedMax
					good = min >= 1 && allowedMax <= k && k <= 0x7fffffff
					why = fmt.Sprintf("priority = %d - precedence, precedence ≤ %d ⇒ minimum %d", k, allowedMax, min)
				}
			}
			r.check(good, "R16.6", fn, tb.Alias+" priority is never 0", pos, why, "table "+tb.Name+" has ternary/range fields and needs a non-zero priority: "+why)
			// the builder is only reachable after verifyPDR succeeded
			for _, c := range callsIn(mod, func(c ssa.CallInstruction) bool {
				return cg.siteReaches(c, func(g *ssa.Function) bool { return g == f })
			}) {
				guarded := len(vcalls) == 0 // then the callers carry the obligation (above)
				for _, vc := range vcalls {
					vcall := vc.(*ssa.Call)
					if instrDominates(vcall, c.(ssa.Instruction)) && errGuarded(mod, vcall, vcall, func(i ssa.Instruction) bool { return i == c.(ssa.Instruction) }) {
						guarded = true
					}
				}
				r.check(guarded, "R16.6", w.FuncName(mod), "call reaching "+f.Name()+" only after verifyPDR succeeded", w.Pos(c.Pos()), "dominated by verifyPDR(pdr) == nil", "an applications entry can be built for a PDR that verifyPDR did not accept")
			}
		}
	}
}

func firstInstr(b *ssa.BasicBlock) ssa.Instruction {
	if len(b.Instrs) == 0 {
		return nil
	}
	return b.Instrs[0]
}

// poolLoop describes a counting loop that fills a pool: for i := start; i OP bound; i++ { pool.Add(conv(i)) }
type poolLoop struct {
	start   int64
	op      token.Token
	bound   ssa.Value
	addCall *ssa.Call
	phi     *ssa.Phi
}

func findPoolLoops(f *ssa.Function) []poolLoop {
	var out []poolLoop
	allInstrs(f, func(i ssa.Instruction) {
		phi, ok := i.(*ssa.Phi)
		if !ok || len(phi.Edges) != 2 {
			return
		}
		var start int64 = -1
		stepOK := false
		for _, e := range phi.Edges {
			if bo, ok := e.(*ssa.BinOp); ok && bo.Op == token.ADD && bo.X == ssa.Value(phi) {
				if k, isK := constInt(bo.Y); isK && k == 1 {
					stepOK = true
				}
			} else if k, isK := constInt(e); isK {
				start = k
			}
		}
		if !stepOK || start < 0 {
			return
		}
		hdr := phi.Block()
		for _, s := range hdr.Succs {
			x, op, y, ok := edgeFact(hdr, s)
			if !ok || x != ssa.Value(phi) || (op != token.LSS && op != token.LEQ) {
				continue
			}
			// an Add call in the body whose argument is the induction variable
			var add *ssa.Call
			for _, b := range f.Blocks {
				if !(b == s || s.Dominates(b)) || !reachesBlock(b, hdr) {
					continue
				}
				for _, j := range b.Instrs {
					c, ok := j.(*ssa.Call)
					if !ok {
						continue
					}
					isAdd := (c.Call.IsInvoke() && c.Call.Method.Name() == "Add") || calleeName(c) == "builtin.append"
					if !isAdd {
						continue
					}
					for _, a := range c.Call.Args {
						if stripConv(a) == ssa.Value(phi) || strings.Contains(symOf(a).String(), phi.Comment) && phi.Comment != "" && symUsesValue(a, phi) {
							add = c
						}
					}
				}
			}
			if add != nil {
				out = append(out, poolLoop{start: start, op: op, bound: y, addCall: add, phi: phi})
			}
		}
	})
	return out
}

func symUsesValue(v ssa.Value, target ssa.Value) bool {
	seen := map[ssa.Value]bool{}
	var rec func(x ssa.Value, d int) bool
	rec = func(x ssa.Value, d int) bool {
		if x == target {
			return true
		}
		if d > 8 || seen[x] {
			return false
		}
		seen[x] = true
		switch y := x.(type) {
		case *ssa.Convert:
			return rec(y.X, d+1)
		case *ssa.MakeInterface:
			return rec(y.X, d+1)
		case *ssa.Slice:
			return rec(y.X, d+1)
		case *ssa.Alloc:
			if refs := y.Referrers(); refs != nil {
				for _, rf := range *refs {
					if ia, ok := rf.(*ssa.IndexAddr); ok {
						for _, st := range directStores(ia) {
							if rec(st.Val, d+1) {
								return true
							}
						}
					}
				}
			}
		}
		return false
	}
	return rec(v, 0)
}

func ruleC16Indices(w *World, r *Report, info *P4Info) {
	const P = "C16"
	// --- meter pools
	initM := w.Fn(P, "pfcpiface.(*UP4).initMetersPools")
	mn := w.FuncName(initM)
	loops := findPoolLoops(initM)
	r.floor("R16.7 meter pool filling loops", len(loops), 2)
	sizeByID := map[int64]int64{}
	for _, m := range info.Meters {
		sizeByID[m.ID] = m.Size
	}
	for _, c := range info.Counters {
		sizeByID[c.ID] = c.Size
	}
	for k, l := range loops {
		bs := symOf(l.bound).String()
		pos := w.Pos(l.addCall.Pos())
		r.check(strings.Contains(bs, "getMeterSizeByID#0"), "R16.7", mn, fmt.Sprintf("meter pool loop #%d bounded by the P4Info size", k+1), pos, bs, "pool is filled up to "+bs+", not the declared meter size")
		r.check(l.op == token.LSS, "R16.7", mn, fmt.Sprintf("meter pool loop #%d excludes index = size", k+1), pos, "i < size", "the pool loop runs while i <= size: cell index 'size' lies outside the meter array")
		r.check(l.start >= 0, "R16.7", mn, fmt.Sprintf("meter pool loop #%d starts at a non-negative index", k+1), pos, fmt.Sprintf("start %d", l.start), "negative start")
		// the pool filled in this arm is the pool of the meter whose size bounds the loop:
		// the Add receiver field and the switch constant on the path to the loop
		recv := ""
		if l.addCall.Call.IsInvoke() {
			recv = symOf(l.addCall.Call.Value).String()
		}
		var armConst int64 = -1
		for _, b := range initM.Blocks {
			for _, s := range b.Succs {
				x, op, y, ok := edgeFact(b, s)
				if ok && op == token.EQL {
					if kk, isK := constInt(y); isK && (s == l.phi.Block() || s.Dominates(l.phi.Block())) && len(s.Preds) == 1 {
						_ = x
						armConst = kk
					}
				}
			}
		}
		wantPool := ""
		for _, m := range info.Meters {
			if m.ID == armConst {
				switch {
				case strings.HasSuffix(m.Name, "app_meter"):
					wantPool = "UP4.appMeterCellIDsPool"
				case strings.HasSuffix(m.Name, "session_meter"):
					wantPool = "UP4.sessMeterCellIDsPool"
				}
			}
		}
		r.check(wantPool != "" && recv == wantPool, "R16.7", mn, fmt.Sprintf("meter pool loop #%d fills the pool of the meter that bounds it", k+1), pos, recv+" under meter "+fmt.Sprint(armConst), fmt.Sprintf("loop under meter id %d fills %s", armConst, recv))
	}
	// getMeterSizeByID is asked for the id that the switch tests (same ranged element)
	allInstrs(initM, func(i ssa.Instruction) {
		c, ok := i.(*ssa.Call)
		if !ok || staticCallee(c) == nil || staticCallee(c).Name() != "getMeterSizeByID" {
			return
		}
		arg := c.Call.Args[1]
		// every `== const` test in the function must be on the same value
		same := true
		allInstrs(initM, func(j ssa.Instruction) {
			if bo, ok := j.(*ssa.BinOp); ok && bo.Op == token.EQL {
				if _, isK := constInt(bo.Y); isK && bo.X != arg {
					same = false
				}
			}
		})
		r.check(same, "R16.7", mn, "size is looked up for the meter id the switch dispatches on", w.Pos(c.Pos()), "same value", "meter size looked up for a different id than the one that selects the pool")
	})
	// --- allocate functions pop from their pool; BuildMeterEntry call sites pair meter const with allocator
	build := w.Fn(P, "pfcpiface.(*P4rtTranslator).BuildMeterEntry")
	allocOf := map[string]string{} // meter name suffix -> allocator name
	allocOf["app_meter"] = "allocateAppMeterCellID"
	allocOf["session_meter"] = "allocateSessionMeterCellID"
	for _, a := range []struct{ fn, pool string }{{"allocateAppMeterCellID", "UP4.appMeterCellIDsPool"}, {"allocateSessionMeterCellID", "UP4.sessMeterCellIDsPool"}} {
		f := w.Fn(P, "pfcpiface.(*UP4)."+a.fn)
		okPop := false
		allInstrs(f, func(i ssa.Instruction) {
			if c, ok := i.(*ssa.Call); ok && c.Call.IsInvoke() && c.Call.Method.Name() == "Pop" && symOf(c.Call.Value).String() == a.pool {
				okPop = true
			}
		})
		r.check(okPop, "R16.7", w.FuncName(f), a.fn+" pops from "+a.pool, w.Pos(f.Pos()), "Pop on the own pool", a.fn+" does not take its ids from "+a.pool)
	}
	nsites := 0
	for _, f := range w.Funcs {
		for _, c := range callsTo(f, build) {
			nsites++
			args := c.Common().Args
			mid, isK := constInt(args[1])
			pos := w.Pos(c.Pos())
			fn := w.FuncName(f)
			if !isK {
				r.bad("R16.7", fn, "BuildMeterEntry meter id is a constant", pos, "meter id "+symOf(args[1]).String())
				continue
			}
			var meter *p4Sized
			for i := range info.Meters {
				if info.Meters[i].ID == mid {
					meter = &info.Meters[i]
				}
			}
			if !r.check(meter != nil, "R16.7", fn, "BuildMeterEntry names a meter of the P4Info", pos, fmt.Sprint(mid), fmt.Sprintf("meter id %d unknown", mid)) {
				continue
			}
			cs := symOf(args[2])
			leaves := strings.Join(cs.Leaves(), " ")
			switch {
			case strings.HasSuffix(meter.Name, "slice_tc_meter"):
				r.check(strings.Contains(leaves, "GetSliceTCMeterIndex#0"), "R16.7", fn, meter.Name+" index ← GetSliceTCMeterIndex", pos, cs.String(), "slice meter cell index is "+cs.String())
			default:
				want := ""
				for suf, al := range allocOf {
					if strings.HasSuffix(meter.Name, suf) {
						want = al
					}
				}
				okProv := want != "" && strings.Contains(leaves, want+"#0")
				for _, other := range allocOf {
					if other != want && strings.Contains(leaves, other+"#0") {
						okProv = false
					}
				}
				r.check(okProv, "R16.7", fn, meter.Name+" index ← "+want, pos, cs.String(), "cell index for "+meter.Name+" comes from "+cs.String())
			}
		}
	}
	r.floor("R16.7 BuildMeterEntry sites", nsites, 5)
	// --- slice/TC meter index bound: exhaustive evaluation of the pure index function
	{
		f := w.Fn(P, "pfcpiface.GetSliceTCMeterIndex")
		var sliceSize int64 = -1
		for _, m := range info.Meters {
			if strings.HasSuffix(m.Name, "slice_tc_meter") {
				sliceSize = m.Size
			}
		}
		bad := ""
		accepted := 0
		for s := 0; s < 256 && bad == ""; s++ {
			for tc := 0; tc < 256; tc++ {
				e := &evaluator{}
				visited, end, env := e.traceEnv(f, []evalVal{{u: uint64(s), ok: true}, {u: uint64(tc), ok: true}})
				_ = visited
				ret, isRet := end.(*ssa.Return)
				if !isRet {
					brokenf(P, "R16.7", "GetSliceTCMeterIndex is no longer a pure function of (sliceID, TC)")
				}
				if !isNilConst(res(ret, 1)) {
					continue
				}
				sub := &evaluator{}
				v, ok := sub.val(env, res(ret, 0))
				if !ok {
					brokenf(P, "R16.7", "cannot evaluate the slice/TC meter index")
				}
				accepted++
				if int64(v.u) < 0 || int64(v.u) >= sliceSize {
					bad = fmt.Sprintf("GetSliceTCMeterIndex(%d,%d) = %d outside [0,%d)", s, tc, int64(v.u), sliceSize)
					break
				}
			}
		}
		r.check(bad == "", "R16.7", w.FuncName(f), "every accepted (sliceID, TC) maps into the slice meter array", w.Pos(f.Pos()), fmt.Sprintf("%d accepted pairs, size %d", accepted, sliceSize), bad)
		r.check(accepted >= 64, "R16.7", w.FuncName(f), "slice ≤ 15 and TC ≤ 3 are accepted", w.Pos(f.Pos()), fmt.Sprint(accepted), "the index function rejects pairs inside the supported envelope")
	}
	// --- counters
	initC := w.Fn(P, "pfcpiface.(*UP4).initCounter")
	cl := findPoolLoops(initC)
	r.floor("R16.7 counter pool filling loops", len(cl), 1)
	for _, l := range cl {
		bs := symOf(l.bound).String()
		r.check(l.op == token.LSS && l.start >= 0, "R16.7", w.FuncName(initC), "counter pool loop covers [0,size)", w.Pos(l.addCall.Pos()), fmt.Sprintf("i from %d, i < %s", l.start, bs), "counter pool loop bound is not i < size")
		r.check(strings.Contains(bs, "maxSize") || strings.Contains(bs, "counterSize"), "R16.7", w.FuncName(initC), "counter pool loop bounded by the counter size", w.Pos(l.addCall.Pos()), bs, "counter pool filled up to "+bs)
	}
	initAll := w.Fn(P, "pfcpiface.(*UP4).initAllCounters")
	for _, c := range callsTo(initAll, initC) {
		s := symOf(c.Common().Args[3]).String()
		r.check(strings.Contains(s, "getCounterSizeByID#0"), "R16.7", w.FuncName(initAll), "counter size comes from the P4Info", w.Pos(c.Pos()), s, "counter pool size is "+s)
	}
	// pre/post QoS counters share the index: their sizes must be equal
	{
		var pre, post int64 = -1, -2
		for _, c := range info.Counters {
			if strings.HasSuffix(c.Name, "pre_qos_counter") {
				pre = c.Size
			}
			if strings.HasSuffix(c.Name, "post_qos_counter") {
				post = c.Size
			}
		}
		r.check(pre == post, "R16.7", "conf/p4/bin/p4info.txt", "pre/post QoS counter arrays have equal sizes (one index is used for both)", "-", fmt.Sprintf("%d = %d", pre, post), fmt.Sprintf("pre-QoS counter size %d, post-QoS %d: the shared index can leave the smaller array", pre, post))
	}
}

// traceEnv is trace that also hands back the evaluation environment at the stop point.
func (e *evaluator) traceEnv(fn *ssa.Function, args []evalVal) ([]*ssa.BasicBlock, ssa.Instruction, map[ssa.Value]evalVal) {
	env := map[ssa.Value]evalVal{}
	for i, p := range fn.Params {
		if i < len(args) {
			env[p] = args[i]
		}
	}
	cells := map[ssa.Value]evalVal{}
	var visited []*ssa.BasicBlock
	var prev *ssa.BasicBlock
	b := fn.Blocks[0]
	for steps := 0; steps < 10000; steps++ {
		visited = append(visited, b)
		var next *ssa.BasicBlock
		for _, ins := range b.Instrs {
			switch x := ins.(type) {
			case *ssa.Phi:
				for i, p := range b.Preds {
					if p == prev {
						sub := &evaluator{}
						if v, ok := sub.val(env, x.Edges[i]); ok && v.ok {
							env[x] = v
						}
					}
				}
			case *ssa.Alloc:
				cells[x] = evalVal{ok: true}
			case *ssa.Store:
				if al, isAl := x.Addr.(*ssa.Alloc); isAl {
					sub := &evaluator{}
					if v, ok := sub.val(env, x.Val); ok {
						cells[al] = v
					} else {
						delete(cells, al)
					}
				}
			case *ssa.If:
				sub := &evaluator{}
				c, ok := sub.val(env, x.Cond)
				if !ok || !c.ok {
					return visited, ins, env
				}
				if c.u != 0 {
					next = b.Succs[0]
				} else {
					next = b.Succs[1]
				}
			case *ssa.Jump:
				next = b.Succs[0]
			case *ssa.Return, *ssa.Panic:
				return visited, ins, env
			case ssa.Value:
				sub := &evaluator{}
				if v, ok := sub.instr(env, cells, x); ok && v.ok {
					env[x] = v
				}
			}
			if next != nil {
				break
			}
		}
		if next == nil {
			return visited, nil, env
		}
		prev, b = b, next
	}
	return visited, nil, env
}

// ---------- R16.8 constants

func ruleC16Constants(w *World, r *Report, info *P4Info) {
	const P = "C16"
	pkg := w.PkgTypes(p4constPkg)
	if pkg == nil {
		brokenf(P, "R16.8", "package internal/p4constants not loaded")
	}
	consts := map[string]int64{} // normalised name -> value
	names := map[string]string{}
	for _, n := range pkg.Scope().Names() {
		if c, ok := pkg.Scope().Lookup(n).(*types.Const); ok {
			v, _ := strconv.ParseInt(c.Val().ExactString(), 10, 64)
			consts[normName(n)] = v
			names[normName(n)] = n
		}
	}
	used := map[string]bool{}
	where := "internal/p4constants/p4constants.go"
	expect := func(kind, name string, val int64) {
		key := normName(name)
		got, ok := consts[key]
		used[key] = true
		if !ok {
			r.bad("R16.8", where, kind+" "+name, "-", "the P4Info object has no generated constant")
			return
		}
		r.check(got == val, "R16.8", where, kind+" "+names[key], "-", fmt.Sprint(val), fmt.Sprintf("%s = %d, the P4Info says %d", names[key], got, val))
	}
	mfWidth := map[string]int64{}
	apWidth := map[string]int64{}
	for _, t := range info.Tables {
		expect("table", "Table_"+t.Name, t.ID)
		for _, f := range t.Fields {
			expect("header field", "Hdr_"+t.Name+"_"+f.Name, f.ID)
			mfWidth[f.Name] = f.Bitwidth
		}
	}
	for _, a := range info.Actions {
		expect("action", "Action_"+a.Name, a.ID)
		for _, p := range a.Params {
			expect("action param", "ActionParam_"+a.Name+"_"+p.Name, p.ID)
			apWidth[p.Name] = p.Bitwidth
		}
	}
	for _, c := range info.Counters {
		expect("counter", "Counter_"+c.Name, c.ID)
		expect("counter size", "CounterSize_"+c.Name, c.Size)
	}
	for _, c := range info.DirectCounters {
		expect("direct counter", "DirectCounter_"+c.Name, c.ID)
	}
	for _, c := range info.ActionProfiles {
		expect("action profile", "ActionProfile_"+c.Name, c.ID)
	}
	for _, c := range info.PacketMeta {
		expect("packet metadata", "PacketMeta_"+c.Name, c.ID)
	}
	for _, m := range info.Meters {
		expect("meter", "Meter_"+m.Name, m.ID)
		expect("meter size", "MeterSize_"+m.Name, m.Size)
	}
	for _, e := range info.Enums {
		for _, m := range e.Members {
			expect("enum", "Enum_"+e.Name+"_"+m.Name, int64(m.Value))
		}
	}
	for n, bw := range mfWidth {
		expect("match field width", "BitwidthMf_"+n, bw)
	}
	for n, bw := range apWidth {
		expect("action param width", "BitwidthAp_"+n, bw)
	}
	// no constant without a P4Info object
	for key, n := range names {
		r.check(used[key], "R16.8", where, "constant "+n+" has a P4Info object", "-", "matched", "constant "+n+" does not correspond to any object of the shipped P4Info")
	}
	// id→name maps and id lists (AST of the generated file)
	p := w.Package(p4constPkg)
	kinds := map[string][]p4Sized{
		"Table":                    nil,
		"Action":                   nil,
		"ActionProfile":            info.ActionProfiles,
		"Counter":                  info.Counters,
		"DirectCounter":            info.DirectCounters,
		"Meter":                    info.Meters,
		"DirectMeter":              info.DirectMeters,
		"ControllerPacketMetadata": info.PacketMeta,
		"Register":                 info.Registers,
	}
	for _, t := range info.Tables {
		kinds["Table"] = append(kinds["Table"], p4Sized{ID: t.ID, Name: t.Name})
	}
	for _, a := range info.Actions {
		kinds["Action"] = append(kinds["Action"], p4Sized{ID: a.ID, Name: a.Name})
	}
	nfun := 0
	for _, file := range p.Syntax {
		for _, d := range file.Decls {
			fd, ok := d.(*ast.FuncDecl)
			if !ok || fd.Body == nil {
				continue
			}
			name := fd.Name.Name
			var kind string
			isMap := false
			switch {
			case strings.HasPrefix(name, "Get") && strings.HasSuffix(name, "IDToNameMap"):
				kind = strings.TrimSuffix(strings.TrimPrefix(name, "Get"), "IDToNameMap")
				isMap = true
			case strings.HasPrefix(name, "Get") && strings.HasSuffix(name, "IDList"):
				kind = strings.TrimSuffix(strings.TrimPrefix(name, "Get"), "IDList")
			default:
				continue
			}
			want, known := kinds[kind]
			if !known {
				continue
			}
			nfun++
			var gotIDs []string
			gotNames := map[string]string{}
			ast.Inspect(fd.Body, func(n ast.Node) bool {
				cl, ok := n.(*ast.CompositeLit)
				if !ok {
					return true
				}
				for _, el := range cl.Elts {
					if kv, ok := el.(*ast.KeyValueExpr); ok {
						k := exprText(w.Fset, kv.Key)
						v, _ := strconv.Unquote(exprText(w.Fset, kv.Value))
						gotIDs = append(gotIDs, k)
						gotNames[k] = v
					} else {
						gotIDs = append(gotIDs, exprText(w.Fset, el))
					}
				}
				return false
			})
			var wantIDs []string
			for _, o := range want {
				wantIDs = append(wantIDs, fmt.Sprint(o.ID))
			}
			r.check(strings.Join(gotIDs, ",") == strings.Join(wantIDs, ","), "R16.8", where, name+" lists the P4Info ids in P4Info order", w.Pos(fd.Pos()), fmt.Sprintf("%d ids", len(gotIDs)), fmt.Sprintf("%s has ids [%s], the P4Info has [%s]", name, strings.Join(gotIDs, ","), strings.Join(wantIDs, ",")))
			if isMap {
				for _, o := range want {
					r.check(gotNames[fmt.Sprint(o.ID)] == o.Name, "R16.8", where, fmt.Sprintf("%s[%d] = %s", name, o.ID, o.Name), w.Pos(fd.Pos()), "matches", fmt.Sprintf("%s maps %d to %q, the P4Info says %q", name, o.ID, gotNames[fmt.Sprint(o.ID)], o.Name))
				}
			}
		}
	}
	r.floor("R16.8 id map / list functions", nfun, 16)
}

// ---------- R16.9 generator determinism

func ruleC16Generator(w *World, r *Report) {
	const P = "C16"
	genPath := modPath + "/cmd/p4info_code_gen"
	p := w.Package(genPath)
	if p == nil {
		brokenf(P, "R16.9", "generator package not loaded")
	}
	nranges, nmaps := 0, 0
	for _, file := range p.Syntax {
		// forbidden imports
		for _, imp := range file.Imports {
			path, _ := strconv.Unquote(imp.Path.Value)
			switch path {
			case "time", "math/rand", "math/rand/v2", "crypto/rand":
				r.bad("R16.9", "cmd/p4info_code_gen", "no clock/random input: import "+path, w.Pos(imp.Pos()), "the generator imports "+path+": its output may differ between runs")
			}
		}
		ast.Inspect(file, func(n ast.Node) bool {
			switch x := n.(type) {
			case *ast.GoStmt:
				r.bad("R16.9", "cmd/p4info_code_gen", "no goroutines", w.Pos(x.Pos()), "the generator starts a goroutine: output order may vary")
			case *ast.SelectorExpr:
				if id, ok := x.X.(*ast.Ident); ok && id.Name == "os" && x.Sel.Name == "Args" {
					r.bad("R16.9", "cmd/p4info_code_gen", "no environment input: os.Args", w.Pos(x.Pos()), "the generator reads its own command line outside the flag package: under `go run` argv[0] is a temporary path, whatever is derived from it differs from run to run")
				}
			case *ast.CallExpr:
				if sel, ok := x.Fun.(*ast.SelectorExpr); ok {
					if id, ok := sel.X.(*ast.Ident); ok && id.Name == "os" && (sel.Sel.Name == "Getenv" || sel.Sel.Name == "Environ" || sel.Sel.Name == "LookupEnv" || sel.Sel.Name == "Hostname" || sel.Sel.Name == "Getpid") {
						r.bad("R16.9", "cmd/p4info_code_gen", "no environment input: os."+sel.Sel.Name, w.Pos(x.Pos()), "generator output depends on the environment")
					}
				}
			case *ast.FuncDecl:
				if x.Body == nil {
					return true
				}
				// ranges over maps inside this function
				ast.Inspect(x.Body, func(m ast.Node) bool {
					rs, ok := m.(*ast.RangeStmt)
					if !ok {
						return true
					}
					nranges++
					t := p.TypesInfo.TypeOf(rs.X)
					if t == nil {
						return true
					}
					if _, isMap := t.Underlying().(*types.Map); !isMap {
						return true
					}
					nmaps++
					fname := "cmd/p4info_code_gen." + x.Name.Name
					// body must be exactly: S = append(S, key)
					var slice string
					okBody := false
					if len(rs.Body.List) == 1 {
						if as, ok := rs.Body.List[0].(*ast.AssignStmt); ok && len(as.Lhs) == 1 && len(as.Rhs) == 1 {
							if call, ok := as.Rhs[0].(*ast.CallExpr); ok {
								if id, ok := call.Fun.(*ast.Ident); ok && id.Name == "append" && len(call.Args) == 2 {
									lhs := exprText(w.Fset, as.Lhs[0])
									if exprText(w.Fset, call.Args[0]) == lhs {
										if key, ok := rs.Key.(*ast.Ident); ok && exprText(w.Fset, call.Args[1]) == key.Name && (rs.Value == nil) {
											slice = lhs
											okBody = true
										}
									}
								}
							}
						}
					}
					// or: S[i] = key; i++ (slots of a slice made with len(map), filled in iteration order)
					if !okBody && len(rs.Body.List) == 2 && rs.Value == nil {
						as, ok1 := rs.Body.List[0].(*ast.AssignStmt)
						key, okK := rs.Key.(*ast.Ident)
						if ok1 && okK && as.Tok == token.ASSIGN && len(as.Lhs) == 1 && len(as.Rhs) == 1 && exprText(w.Fset, as.Rhs[0]) == key.Name {
							if ix, ok := as.Lhs[0].(*ast.IndexExpr); ok {
								if ctr, ok := ix.Index.(*ast.Ident); ok {
									stepped := false
									switch st := rs.Body.List[1].(type) {
									case *ast.IncDecStmt:
										stepped = st.Tok == token.INC && exprText(w.Fset, st.X) == ctr.Name
									case *ast.AssignStmt:
										stepped = st.Tok == token.ADD_ASSIGN && len(st.Lhs) == 1 && exprText(w.Fset, st.Lhs[0]) == ctr.Name && exprText(w.Fset, st.Rhs[0]) == "1"
									}
									if _, isSlice := p.TypesInfo.TypeOf(ix.X).Underlying().(*types.Slice); isSlice && stepped {
										slice = exprText(w.Fset, ix.X)
										okBody = true
									}
								}
							}
						}
					}
					if !r.check(okBody, "R16.9", fname, "range over map "+exprText(w.Fset, rs.X)+" only collects keys", w.Pos(rs.Pos()), "body is keys = append(keys, k)", "the generator iterates a map and uses the elements in iteration order: Go randomises map order, so the generated file differs from run to run") {
						return true
					}
					// a sort of that slice follows the loop, before any other statement that reads it
					sorted := false
					ast.Inspect(x.Body, func(q ast.Node) bool {
						call, ok := q.(*ast.CallExpr)
						if !ok || call.Pos() < rs.End() {
							return true
						}
						if sel, ok := call.Fun.(*ast.SelectorExpr); ok {
							if id, ok := sel.X.(*ast.Ident); ok && (id.Name == "sort" || id.Name == "slices") && len(call.Args) >= 1 && exprText(w.Fset, call.Args[0]) == slice {
								// a total order on the keys themselves: a sort with a caller-supplied
								// comparison (sort.Slice, slices.SortFunc) can leave keys that compare equal
								// in the order the map iteration produced them
								switch sel.Sel.Name {
								case "Strings", "Ints", "Float64s", "Sort", "Stable":
									sorted = true
								case "Slice", "SliceStable":
									// a comparison of the keys themselves, `keys[i] < keys[j]`, is the same
									// total order (map keys are pairwise distinct)
									if len(call.Args) == 2 {
										if fl, ok := call.Args[1].(*ast.FuncLit); ok && len(fl.Body.List) == 1 && len(fl.Type.Params.List) >= 1 {
											if ret, ok := fl.Body.List[0].(*ast.ReturnStmt); ok && len(ret.Results) == 1 {
												if be, ok := ret.Results[0].(*ast.BinaryExpr); ok && (be.Op == token.LSS || be.Op == token.GTR) {
													lx, lok := be.X.(*ast.IndexExpr)
													rx, rok := be.Y.(*ast.IndexExpr)
													if lok && rok && exprText(w.Fset, lx.X) == slice && exprText(w.Fset, rx.X) == slice {
														sorted = true
													}
												}
											}
										}
									}
								}
							}
						}
						return true
					})
					// first use after the loop must be the sort
					firstUseIsSort := false
					var firstUse token.Pos = token.NoPos
					ast.Inspect(x.Body, func(q ast.Node) bool {
						id, ok := q.(*ast.Ident)
						if !ok || id.Pos() < rs.End() || id.Name != slice {
							return true
						}
						if firstUse == token.NoPos || id.Pos() < firstUse {
							firstUse = id.Pos()
						}
						return true
					})
					if firstUse != token.NoPos {
						ast.Inspect(x.Body, func(q ast.Node) bool {
							call, ok := q.(*ast.CallExpr)
							if !ok {
								return true
							}
							if sel, ok := call.Fun.(*ast.SelectorExpr); ok {
								if id, ok := sel.X.(*ast.Ident); ok && (id.Name == "sort" || id.Name == "slices") && len(call.Args) >= 1 && call.Args[0].Pos() == firstUse {
									firstUseIsSort = true
								}
							}
							return true
						})
					}
					r.check(sorted && firstUseIsSort, "R16.9", fname, "keys collected from "+exprText(w.Fset, rs.X)+" are sorted before use", w.Pos(rs.Pos()), "sort precedes every other use", "keys collected from a map are used without sorting: output order is random")
					return true
				})
			}
			return true
		})
	}
	r.floor("R16.9 range statements in the generator", nranges, 20)
	r.floor("R16.9 ranges over maps in the generator", nmaps, 2)
}

func lastSeg(s string) string {
	if i := strings.LastIndex(s, "."); i >= 0 {
		return s[i+1:]
	}
	return s
}

// ruleTranslatorBytes (R16.8, re-filed under C07 as R07.8): what the translator's with…MatchField /
// action-parameter helpers put on the wire is the big-endian encoding convertValueToBinary produced,
// unchanged or with leading zero bytes stripped (the P4Runtime canonical form). Anything else that
// touches the bytes — trimming on the right, re-slicing from the end, a lookup — changes the value: the
// entry is written under another key than the one reported to the control plane.
func ruleTranslatorBytes(w *World, r *Report, prop, rule string) {
	conv := w.Fn(prop, "pfcpiface.convertValueToBinary")
	n := 0
	for _, f := range w.Funcs {
		fname := w.FuncName(f)
		// the translator's methods (helpers they call that are new are expanded into them)
		if !strings.HasPrefix(fname, "pfcpiface.(*P4rtTranslator).") {
			continue
		}
		allInstrs(f, func(i ssa.Instruction) {
			st, ok := i.(*ssa.Store)
			if !ok {
				return
			}
			fa, ok := st.Addr.(*ssa.FieldAddr)
			if !ok || fieldVar(fa) == nil {
				return
			}
			fld := fieldVar(fa).Name()
			if fld != "Value" && fld != "Mask" && fld != "Low" && fld != "High" {
				return
			}
			owner := ""
			if nt := namedOf(fa.X.Type()); nt != nil {
				owner = nt.Obj().Name()
			}
			if !strings.HasPrefix(owner, "FieldMatch_") && owner != "Action_Param" {
				return
			}
			// only values that come from the converter (masks built by net.CIDRMask etc. are another rule's business)
			fromConv, foreign := false, ""
			var walk func(v ssa.Value, d int)
			seen := map[ssa.Value]bool{}
			walk = func(v ssa.Value, d int) {
				if d > 10 || seen[v] {
					return
				}
				seen[v] = true
				switch x := v.(type) {
				case *ssa.Extract:
					if c, ok := x.Tuple.(*ssa.Call); ok && staticCallee(c) == conv {
						fromConv = true
						return
					}
					foreign = valueText(v)
				case *ssa.Call:
					name := calleeName(x)
					switch {
					case name == "bytes.TrimLeft" && len(x.Call.Args) == 2:
						if cs, ok := x.Call.Args[1].(*ssa.Const); ok && cs.Value != nil && constant.StringVal(cs.Value) == "\x00" {
							walk(x.Call.Args[0], d+1)
							return
						}
						foreign = "bytes.TrimLeft with another cut set"
					case strings.HasPrefix(name, "bytes.") || strings.HasPrefix(name, "slices.") || name == "builtin.append" || name == "builtin.copy":
						// the value passes through a byte-string operation that is not "strip leading zeros"
						for _, a := range x.Call.Args {
							sub := map[ssa.Value]bool{}
							var reaches func(y ssa.Value, dd int) bool
							reaches = func(y ssa.Value, dd int) bool {
								if dd > 8 || sub[y] {
									return false
								}
								sub[y] = true
								switch z := y.(type) {
								case *ssa.Extract:
									c, ok := z.Tuple.(*ssa.Call)
									return ok && staticCallee(c) == conv
								case *ssa.Phi:
									for _, e := range z.Edges {
										if reaches(e, dd+1) {
											return true
										}
									}
								case *ssa.Slice:
									return reaches(z.X, dd+1)
								case *ssa.Call:
									for _, aa := range z.Call.Args {
										if reaches(aa, dd+1) {
											return true
										}
									}
								}
								return false
							}
							if reaches(a, 0) {
								fromConv = true
								foreign = shortCallee(name)
							}
						}
					}
				case *ssa.Slice:
					if x.High != nil {
						if reachesConv(x.X, conv, 0) {
							fromConv = true
							foreign = "a re-slice that cuts the end (" + valueText(x) + ")"
						}
						return
					}
					walk(x.X, d+1)
				case *ssa.Phi:
					for _, e := range x.Edges {
						walk(e, d+1)
					}
				}
			}
			walk(st.Val, 0)
			if !fromConv {
				return
			}
			n++
			r.check(foreign == "", rule, fname, owner+"."+fld+" carries the converter's bytes unchanged (leading zeros may be stripped)", w.Pos(st.Pos()), "convertValueToBinary → "+fld, "the bytes written to "+owner+"."+fld+" pass through "+foreign+" after the conversion: values with a zero byte at the end (256, 512, … as TEID or address) are written as a different number than the one the agent reported and stored")
		})
	}
	r.floor(rule+" converter results written to match fields and parameters", n, 5)
}

func reachesConv(v ssa.Value, conv *ssa.Function, d int) bool {
	if d > 8 {
		return false
	}
	switch z := v.(type) {
	case *ssa.Extract:
		c, ok := z.Tuple.(*ssa.Call)
		return ok && staticCallee(c) == conv
	case *ssa.Phi:
		for _, e := range z.Edges {
			if reachesConv(e, conv, d+1) {
				return true
			}
		}
	case *ssa.Slice:
		return reachesConv(z.X, conv, d+1)
	case *ssa.Call:
		for _, a := range z.Call.Args {
			if reachesConv(a, conv, d+1) {
				return true
			}
		}
	}
	return false
}

// ruleC16AssumedArgs (R16.9): the width check of slice_id, tc and qfi rests on the bounds the property
// states for the *configured* quantities (slice ≤ 15, traffic class ≤ 3, QFI ≤ 63). That is only an
// argument when the value handed to the builder IS the configured quantity. For the traffic class: the
// tc argument of BuildTerminationsTableEntry is up4.conf.QFIToTC[...] or up4.conf.DefaultTC (or a
// constant ≤ 3) — not something computed from them (a <slice, TC> index does not fit the 2-bit field).
func ruleC16AssumedArgs(w *World, r *Report) {
	const P = "C16"
	build := w.Fn(P, "pfcpiface.(*P4rtTranslator).BuildTerminationsTableEntry")
	tcIdx := -1
	for i, p := range build.Params {
		if p.Name() == "tc" {
			tcIdx = i
		}
	}
	if tcIdx < 0 {
		r.bad("R16.9", w.FuncName(build), "BuildTerminationsTableEntry takes the traffic class as parameter tc", w.Pos(build.Pos()), "no parameter named tc")
		return
	}
	n := 0
	for _, e := range w.CG().callersOf(build) {
		if strings.HasPrefix(w.FuncName(e.Caller), "test/") {
			continue
		}
		c, ok := e.Site.(ssa.CallInstruction)
		if !ok || tcIdx >= len(c.Common().Args) {
			continue
		}
		n++
		arg := c.Common().Args[tcIdx]
		okAll, bad := true, ""
		seen := map[ssa.Value]bool{}
		var leaf func(v ssa.Value, d int)
		leaf = func(v ssa.Value, d int) {
			if d > 8 || seen[v] {
				return
			}
			seen[v] = true
			switch x := v.(type) {
			case *ssa.Phi:
				for _, ed := range x.Edges {
					leaf(ed, d+1)
				}
				return
			case *ssa.Extract:
				if lk, ok := x.Tuple.(*ssa.Lookup); ok && x.Index == 0 && strings.HasSuffix(symOf(lk.X).String(), "conf.QFIToTC") {
					return
				}
			case *ssa.Lookup:
				if strings.HasSuffix(symOf(x.X).String(), "conf.QFIToTC") {
					return
				}
			case *ssa.UnOp:
				if x.Op == token.MUL && strings.HasSuffix(symOf(x.X).String(), "conf.DefaultTC") {
					return
				}
				if s := symOf(x).String(); strings.HasSuffix(s, "conf.DefaultTC") {
					return
				}
			case *ssa.Const:
				if k, isK := constInt(x); isK && k >= 0 && k <= 3 {
					return
				}
			}
			okAll, bad = false, symOf(v).String()
		}
		leaf(arg, 0)
		r.check(okAll, "R16.9", w.FuncName(e.Caller), "the tc argument is the configured traffic class itself", w.Pos(c.Pos()), "QFIToTC[qfi] / DefaultTC", "the value passed as tc is "+bad+", not the configured class: the bound 'traffic class ≤ 3' says nothing about it, and the terminations action's tc parameter is 2 bits wide")
	}
	r.floor("R16.9 callers of BuildTerminationsTableEntry", n, 1)
	// the same for slice_id (4 bits): what is passed as sliceID to the builders is the configured slice
	m := 0
	for _, f := range w.Funcs {
		fname := w.FuncName(f)
		if !strings.HasPrefix(fname, "pfcpiface.(*P4rtTranslator).Build") {
			continue
		}
		sidx := -1
		for i, p := range f.Params {
			if p.Name() == "sliceID" {
				sidx = i
			}
		}
		if sidx < 0 {
			continue
		}
		for _, e := range w.CG().callersOf(f) {
			if strings.HasPrefix(w.FuncName(e.Caller), "test/") {
				continue
			}
			c, ok := e.Site.(ssa.CallInstruction)
			if !ok || sidx >= len(c.Common().Args) {
				continue
			}
			m++
			s := symOf(c.Common().Args[sidx]).String()
			r.check(strings.HasSuffix(s, "conf.SliceID") || strings.HasSuffix(s, ".sliceID"), "R16.9", w.FuncName(e.Caller), "the sliceID argument of "+f.Name()+" is the configured slice", w.Pos(c.Pos()), s, "the value passed as sliceID is "+s+", not the configured slice: the bound 'slice ≤ 15' says nothing about it (an internal application ID goes up to 253), and slice_id is a 4-bit field")
		}
	}
	r.floor("R16.9 call sites passing a slice ID", m, 2)
}

// ruleC16GeneratorOutput (R16.10): "the constants compiled into the agent are those derived from the shipped
// P4Info" needs the generator's output file to contain the generated text and nothing else: it is written
// with os.WriteFile, or opened with O_TRUNC (or O_EXCL) — a file opened O_WRONLY|O_CREATE keeps the tail of
// what was there before whenever the new text is shorter (regeneration in place over the gofmt-ed file).
func ruleC16GeneratorOutput(w *World, r *Report) {
	n := 0
	for _, f := range w.Funcs {
		if !strings.HasPrefix(w.FuncName(f), "cmd/p4info_code_gen.") {
			continue
		}
		allInstrs(f, func(i ssa.Instruction) {
			c, ok := i.(*ssa.Call)
			if !ok {
				return
			}
			switch calleeName(c) {
			case "os.WriteFile", "os.Create":
				n++
				r.ok("R16.10", w.FuncName(f), "the generator's output replaces the file", w.Pos(c.Pos()), shortCallee(calleeName(c))+" truncates")
			case "os.OpenFile":
				n++
				k, isK := constInt(c.Call.Args[1])
				const oTrunc, oExcl, oAppend = 0x200, 0x80, 0x400
				r.check(isK && (k&oTrunc != 0 || k&oExcl != 0) && k&oAppend == 0, "R16.10", w.FuncName(f), "the generator's output replaces the file", w.Pos(c.Pos()), fmt.Sprintf("flags %#x", k), fmt.Sprintf("the output file is opened with flags %#x, without O_TRUNC: when the generated text is shorter than what the file held (regeneration in place over the gofmt-ed file, a P4Info revision that removes a table) the old tail survives — the same P4Info gives different, possibly invalid constants", k))
			}
		})
	}
	r.floor("R16.10 writes of the generator's output", n, 1)
}
