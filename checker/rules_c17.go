package main

import (
	"fmt"
	"go/token"
	"go/types"
	"strings"

	"golang.org/x/tools/go/ssa"
)

func init() { rules["C17"] = ruleC17 }

func prVal(low, high uint64) evalVal {
	return evalVal{ok: true, fields: []evalVal{{u: low, ok: true}, {u: high, ok: true}}}
}

// comparesOnly reports whether every arithmetic/comparison instruction of fn (and of the
// repo functions it calls) is a comparison between the receiver's fields and the constants
// in allowed, or a boolean connective.
func comparesOnly(fn *ssa.Function, allowed map[int64]bool, seen map[*ssa.Function]bool) bool {
	if seen[fn] {
		return true
	}
	seen[fn] = true
	ok := true
	allInstrs(fn, func(i ssa.Instruction) {
		switch x := i.(type) {
		case *ssa.BinOp:
			switch x.Op {
			case token.EQL, token.NEQ, token.LSS, token.LEQ, token.GTR, token.GEQ:
				for _, o := range []ssa.Value{x.X, x.Y} {
					if k, isK := constInt(o); isK {
						if !allowed[k] {
							ok = false
						}
					}
				}
			default:
				ok = false
			}
		case *ssa.Call:
			callee := staticCallee(x)
			if callee == nil || callee.Blocks == nil {
				ok = false
				return
			}
			if !comparesOnly(callee, allowed, seen) {
				ok = false
			}
		case *ssa.Convert:
			ok = false
		}
	})
	return ok
}

func ruleC17(w *World, r *Report) {
	const P = "C17"
	r.Explanation = "R17.1 isWildcardMatch/isExactMatch/isRangeMatch only compare low/high with each other, 0 and 65535 (structural premise), so evaluating the extracted predicates over representatives of every order class of (low, high, 0, 65535) is exhaustive: exactly one class holds, wildcard only for (0,65535) and (0,0), exact only for low==high!=0; Width() equals high-low+1 without wrap for every non-wildcard non-inverted class; " +
		"R17.2 every error return of the three conversion functions returns no rules; the Cartesian product's dispatch (both ranges→error; one range→Exact expansion × trivial other side; none→one rule) by path enumeration, the rule literals take src fields from the src side and dst from the dst side; the Exact arm is guarded by a Width() bound; " +
		"R17.3 the Exact expansion is a counting loop from zext(low) to zext(high) inclusive, step 1, in a type wider than 16 bits, appending {trunc(iv), 0xFFFF} once per iteration; R17.4 parsePort rejects low > high before constructing the range and parses with bit size 16."
	r.Explanation += " R17.6 the BESS PDR workers signal completion once, after the last entry; R17.7 the UP4 applications entry omits the port range field exactly for isWildcardMatch() ranges (guard evaluated over all valuations of low/high atoms)."
	r.Explanation += " R17.8 = C04 R04.12; R17.9 = C08 R08.6; R17.10 the expansion returns freshly allocated slices and writes no package variable; WRAP obligations on the expansion loops."
	r.Explanation += " R17.11 = C05 R05.15 (workers never report false); R17.12 = C04 R04.9; R17.13 the product slice grows from length 0; a range-indexed fill of make(len(xs)) counts as one append per element."
	r.NotDecided = "cover exactness of the Ternary strategy (bit arithmetic over 2^32 inputs; not used by CreatePortRangeCartesianProduct)"
	isW := w.Fn(P, "pfcpiface.(portRange).isWildcardMatch")
	isE := w.Fn(P, "pfcpiface.(portRange).isExactMatch")
	isR := w.Fn(P, "pfcpiface.(portRange).isRangeMatch")
	width := w.Fn(P, "pfcpiface.(portRange).Width")
	trivial := w.Fn(P, "pfcpiface.(portRange).asTrivialTernaryMatch")
	complexF := w.Fn(P, "pfcpiface.(portRange).asComplexTernaryMatches")
	exactUn := w.Fn(P, "pfcpiface.(portRange).asExactMatchUnchecked")
	cart := w.Fn(P, "pfcpiface.CreatePortRangeCartesianProduct")
	parsePort := w.Fn(P, "pfcpiface.(*endpoint).parsePort")
	newRange := w.Fn(P, "pfcpiface.newRangeMatchPortRange")
	newWild := w.Fn(P, "pfcpiface.newWildcardPortRange")

	// ---- R17.1
	allowed := map[int64]bool{0: true, 65535: true}
	premise := true
	for _, f := range []*ssa.Function{isW, isE, isR} {
		if !comparesOnly(f, allowed, map[*ssa.Function]bool{}) {
			premise = false
		}
	}
	var lows, highs []uint64
	if premise {
		lows = []uint64{0, 1, 2, 3, 100, 101, 65533, 65534, 65535}
		highs = lows
		r.ok("R17.1", "pfcpiface.(portRange).is*Match", "predicates only compare low/high/0/65535", w.Pos(isW.Pos()), "structural premise holds: order-class evaluation is exhaustive")
	} else {
		// the predicates do arithmetic: fall back to a dense boundary grid (every low, boundary highs)
		for v := uint64(0); v < 65536; v++ {
			lows = append(lows, v)
		}
		r.Extra["R17.1_premise"] = "predicates contain arithmetic or other constants; evaluated on the dense grid low∈[0,65535] × boundary highs"
	}
	classOK, wildOK, exactOK, widthOK := true, true, true, true
	var badClass, badWild, badExact, badWidth string
	nEval := 0
	evalPred := func(f *ssa.Function, lo, hi uint64) (bool, bool) {
		e := &evaluator{}
		v, ok := e.call(f, []evalVal{prVal(lo, hi)})
		return v.u != 0, ok
	}
	for _, lo := range lows {
		hs := highs
		if !premise {
			hs = []uint64{0, 1, lo - 1, lo, lo + 1, lo + 99, lo + 100, lo + 101, 65534, 65535}
		}
		for _, hi := range hs {
			hi &= 0xffff
			nEval++
			wv, ok1 := evalPred(isW, lo, hi)
			ev, ok2 := evalPred(isE, lo, hi)
			rv, ok3 := evalPred(isR, lo, hi)
			if !ok1 || !ok2 || !ok3 {
				brokenf(P, "R17.1", "classification predicates are no longer pure functions of (low, high)")
			}
			n := 0
			for _, b := range []bool{wv, ev, rv} {
				if b {
					n++
				}
			}
			if n != 1 && classOK {
				classOK = false
				badClass = fmt.Sprintf("(%d,%d): wildcard=%v exact=%v range=%v", lo, hi, wv, ev, rv)
			}
			wantW := (lo == 0 && hi == 65535) || (lo == 0 && hi == 0)
			if wv != wantW && wildOK {
				wildOK = false
				badWild = fmt.Sprintf("(%d,%d) wildcard=%v", lo, hi, wv)
			}
			wantE := lo == hi && hi != 0
			if ev != wantE && exactOK {
				exactOK = false
				badExact = fmt.Sprintf("(%d,%d) exact=%v", lo, hi, ev)
			}
			if lo <= hi && !wantW {
				e := &evaluator{}
				v, ok := e.call(width, []evalVal{prVal(lo, hi)})
				if !ok {
					brokenf(P, "R17.1", "Width is no longer a pure function of (low, high)")
				}
				if v.u != hi-lo+1 && widthOK {
					widthOK = false
					badWidth = fmt.Sprintf("Width(%d,%d)=%d want %d", lo, hi, v.u, hi-lo+1)
				}
			}
		}
	}
	r.Extra["R17.1_evaluations"] = nEval
	r.check(classOK, "R17.1", w.FuncName(isR), "exactly one of wildcard/exact/range per order class", w.Pos(isR.Pos()), fmt.Sprintf("%d (low,high) representatives", nEval), "classification is not a partition at "+badClass)
	r.check(wildOK, "R17.1", w.FuncName(isW), "wildcard ⇔ (0,65535) or (0,0)", w.Pos(isW.Pos()), "all classes", "wildcard classification wrong at "+badWild)
	r.check(exactOK, "R17.1", w.FuncName(isE), "exact ⇔ low == high != 0", w.Pos(isE.Pos()), "all classes", "exact classification wrong at "+badExact)
	r.check(widthOK, "R17.1", w.FuncName(width), "Width = high-low+1 without wrap on non-wildcard, non-inverted classes", w.Pos(width.Pos()), "all classes", badWidth)
	// constructors
	{
		e := &evaluator{}
		v, ok := e.call(newWild, nil)
		good := ok && len(v.fields) == 2 && v.fields[0].u == 0 && v.fields[1].u == 65535
		if !ok {
			// composite literal through a cell: check by provenance instead
			fs := fieldStores(newWild, "portRange")
			good = len(fs["low"]) == 1 && len(fs["high"]) == 1
			if good {
				l, _ := constInt(fs["low"][0].Val)
				h, _ := constInt(fs["high"][0].Val)
				good = l == 0 && h == 65535
			}
		}
		r.check(good, "R17.1", w.FuncName(newWild), "newWildcardPortRange = (0,65535)", w.Pos(newWild.Pos()), "literal fields", "wildcard constructor does not produce 0-65535")
	}

	// ---- R17.2 refusal returns no rules
	for _, f := range []*ssa.Function{trivial, complexF, cart} {
		for k, ret := range returnsOf(f) {
			if len(ret.Results) != 2 {
				continue
			}
			if isNilConst(res(ret, 1)) {
				continue
			}
			v := res(ret, 0)
			zero := false
			if c, ok := v.(*ssa.Const); ok && (c.Value == nil || c.IsNil()) {
				zero = true
			}
			if u, ok := v.(*ssa.UnOp); ok && u.Op == token.MUL {
				if al, ok := u.X.(*ssa.Alloc); ok && len(storesTo(al)) == 0 && noFieldStores(al) {
					zero = true
				}
			}
			r.check(zero, "R17.2", w.FuncName(f), fmt.Sprintf("error return #%d carries no rule", k+1), w.Pos(ret.Pos()), "first result is nil/zero", "an error return also returns rules: "+symOf(v).String())
		}
	}
	// trivial conversion decision table
	{
		n := 0
		okEnum := enumPaths(trivial, 2, 2000, func(p *Path) {
			n++
			cls := pathClass(p, isW, isE, isR)
			ret, _ := p.last().(*ssa.Return)
			if ret == nil {
				return
			}
			isErr := !isNilConst(res(ret, 1))
			desc := "asTrivialTernaryMatch[" + cls + "]"
			switch {
			case strings.Contains(cls, "wildcard=T"):
				s := ruleLiteral(p, res(ret, 0))
				r.check(!isErr && s == "{0,0}", "R17.2", w.FuncName(trivial), desc+" → {0,0}", w.Pos(ret.Pos()), s, "wildcard converts to "+s)
			case strings.Contains(cls, "exact=T"):
				s := ruleLiteral(p, res(ret, 0))
				r.check(!isErr && s == "exact()", "R17.2", w.FuncName(trivial), desc+" → {low,0xFFFF}", w.Pos(ret.Pos()), s, "exact range converts to "+s)
			default:
				r.check(isErr, "R17.2", w.FuncName(trivial), desc+" → error", w.Pos(ret.Pos()), "refused", "a true range is trivially converted instead of refused")
			}
		})
		if !okEnum {
			brokenf(P, "R17.2", "too many paths in asTrivialTernaryMatch")
		}
		r.floor("R17.2 paths in asTrivialTernaryMatch", n, 3)
	}
	// asExactMatchUnchecked literal
	{
		fs := fieldStores(exactUn, "portRangeTernaryRule")
		good := len(fs["port"]) == 1 && len(fs["mask"]) == 1
		desc := ""
		if good {
			ps := symOf(fs["port"][0].Val).String()
			m, mk := constInt(fs["mask"][0].Val)
			desc = fmt.Sprintf("port=%s mask=%d", ps, m)
			good = ps == "portRange.low" && mk && m == 65535
		}
		r.check(good, "R17.2", w.FuncName(exactUn), "exact rule = {low, 0xFFFF}", w.Pos(exactUn.Pos()), desc, "exact-match rule is "+desc)
	}

	// Cartesian product dispatch
	ruleC17Cartesian(w, r, cart, complexF, trivial, isR)
	// error discipline: a refusal of one side refuses the pair
	nE := errorsPropagate(w, r, "R17.2", cart, func(c *ssa.Call) bool {
		g := staticCallee(c)
		return g == complexF || g == trivial
	}, successReturns(cart), "refuses the pair")
	r.floor("R17.2 conversion calls in the Cartesian product", nE, 3)
	portRuleConsumers(w, r, "R17.5", cart)
	ruleC17DoneOnce(w, r)
	ruleBessWorkersReportTrue(w, r, "R17.11")
	r.withRule("R17.12", func() { ruleC04AppFilterEmpty(w, r) })
	ruleProductStartsEmpty(w, r, "C17", "R17.13")
	ruleC17FreshResult(w, r, cart, complexF)
	// the expansion loops terminate: no narrow counter that wraps at the end of the port space (and, for C08,
	// the functions the expansion of a parsed filter runs through)
	{
		fs := map[*ssa.Function]bool{complexF: true, cart: true}
		weng := newEngine(w, r, "R17.2", fs)
		for _, f := range sortedFuncs(w, fs) {
			weng.wrapObls(f)
		}
	}
	ruleC17UP4Range(w, r)
	ruleC04AppIDPerPDR(w, r, "C17", "R17.8")
	ruleUP4AppKey(w, r, "C17", "R17.9")

	// ---- asComplexTernaryMatches: fast paths, strategy guard and loop shape
	ruleC17Complex(w, r, complexF, isW, isE, isR, width, exactUn)

	// ---- R17.4
	{
		pname := w.FuncName(parsePort)
		calls := callsTo(parsePort, newRange)
		r.floor("R17.4 range constructor calls in parsePort", len(calls), 1)
		for _, c := range calls {
			a0, a1 := c.Common().Args[0], c.Common().Args[1]
			lowV, highV := stripConv(a0), stripConv(a1)
			ls, hs := symOf(lowV).String(), symOf(highV).String()
			r.check(strings.Contains(ls, "ParseUint") && strings.Contains(hs, "ParseUint") && lowV != highV, "R17.4", pname, "constructor gets the two parsed numbers", w.Pos(c.Pos()), ls+" , "+hs, "range is built from "+ls+" and "+hs)
			g := onlyVia(parsePort, c.(ssa.Instruction), func(a, b *ssa.BasicBlock) bool {
				x, op, y, ok := edgeFact(a, b)
				if !ok {
					return false
				}
				return (x == lowV && y == highV && (op == token.LEQ)) || (x == highV && y == lowV && (op == token.GEQ))
			})
			r.check(g, "R17.4", pname, "constructor only on the low <= high edge", w.Pos(c.Pos()), "dominated by !(low > high)", "an inverted range reaches the constructor")
			// the two numbers come from different tokens: ports[0] and ports[1]
			i0, i1 := parseUintIndex(lowV), parseUintIndex(highV)
			if i1 == -1 && w.parsedTokenIsLast(parsePort, highV) {
				i1 = lastToken
			}
			r.check(i0 == 0 && (i1 == 1 || i1 == lastToken), "R17.4", pname, "low ← ports[0], high ← ports[1]", w.Pos(c.Pos()), fmt.Sprintf("indices %d,%d", i0, i1), fmt.Sprintf("low/high parsed from tokens %d and %d", i0, i1))
		}
		n := 0
		allInstrs(parsePort, func(i ssa.Instruction) {
			c, ok := i.(*ssa.Call)
			if !ok || calleeName(c) != "strconv.ParseUint" {
				return
			}
			n++
			base, _ := constInt(c.Call.Args[1])
			bits, _ := constInt(c.Call.Args[2])
			r.check(base == 10 && bits == 16, "R17.4", pname, fmt.Sprintf("ParseUint #%d base 10, 16 bits", n), w.Pos(c.Pos()), "out-of-range numbers are errors", fmt.Sprintf("ParseUint(base=%d,bits=%d) lets out-of-range ports wrap when converted to uint16", base, bits))
			// its error is returned
			if ev := errResult(c); ev != nil {
				g := errGuarded(parsePort, c, ev, func(j ssa.Instruction) bool {
					cc, ok := j.(ssa.CallInstruction)
					return ok && staticCallee(cc) == newRange
				})
				r.check(g, "R17.4", pname, fmt.Sprintf("ParseUint #%d error refuses the range", n), w.Pos(c.Pos()), "constructor unreachable unless err == nil", "a port token that does not parse still yields a range")
			}
		})
		r.check(n >= 2, "R17.4", pname, "both ends of a port token are parsed with a bounded unsigned parse", w.Pos(parsePort.Pos()), fmt.Sprintf("%d ParseUint sites", n), fmt.Sprintf("parsePort has %d strconv.ParseUint(…, 10, 16) sites (two ends of a range): a port number above 65535 is no longer an error and wraps when it is narrowed to 16 bits", n))
		// every error return of parsePort leaves ep.ports untouched: the store to ep.ports happens only after the constructor
		allInstrs(parsePort, func(i ssa.Instruction) {
			st, ok := i.(*ssa.Store)
			if !ok {
				return
			}
			fa, ok := st.Addr.(*ssa.FieldAddr)
			if !ok || fieldVar(fa) == nil || fieldVar(fa).Name() != "ports" {
				return
			}
			_, fromCtor := st.Val.(*ssa.Call)
			r.check(fromCtor && staticCallee(st.Val.(*ssa.Call)) == newRange, "R17.4", pname, "ep.ports assigned only from the checked constructor", w.Pos(st.Pos()), "store of newRangeMatchPortRange(...)", "ep.ports assigned from "+symOf(st.Val).String())
		})
	}
}

func noFieldStores(al *ssa.Alloc) bool {
	ok := true
	if refs := al.Referrers(); refs != nil {
		for _, rf := range *refs {
			if fa, isFA := rf.(*ssa.FieldAddr); isFA && len(directStores(fa)) > 0 {
				ok = false
			}
		}
	}
	return ok
}

func parseUintIndex(v ssa.Value) int64 {
	// v = extract #0 of strconv.ParseUint(ports[i], ...)
	ex, ok := v.(*ssa.Extract)
	if !ok {
		return -1
	}
	c, ok := ex.Tuple.(*ssa.Call)
	if !ok || len(c.Call.Args) < 1 {
		return -1
	}
	u, ok := c.Call.Args[0].(*ssa.UnOp)
	if !ok {
		return -1
	}
	ia, ok := u.X.(*ssa.IndexAddr)
	if !ok {
		return -1
	}
	k, ok := constInt(ia.Index)
	if !ok {
		// ports[len(ports)-1]: the last token (the second of two, the only one of one)
		if bo, isB := ia.Index.(*ssa.BinOp); isB && bo.Op == token.SUB {
			if one, isK := constInt(bo.Y); isK && one == 1 {
				if lc, isLen := bo.X.(*ssa.Call); isLen && calleeName(lc) == "builtin.len" && lc.Call.Args[0] == ia.X {
					return lastToken
				}
			}
		}
		return -1
	}
	return k
}

const lastToken = int64(-2)

// parsedTokenIsLast: v = extract #0 of strconv.ParseUint(tok, …) where tok is chosen among the tokens of one
// list by the list's length: every alternative tokens[k] arrives (at the φ that merges them) only when the list
// has exactly k+1 tokens, so tok is the last token whichever alternative is taken — the same value as
// tokens[len(tokens)-1].
func (w *World) parsedTokenIsLast(fn *ssa.Function, v ssa.Value) bool {
	ex, ok := v.(*ssa.Extract)
	if !ok {
		return false
	}
	c, ok := ex.Tuple.(*ssa.Call)
	if !ok || len(c.Call.Args) < 1 {
		return false
	}
	phi, ok := c.Call.Args[0].(*ssa.Phi)
	if !ok {
		return false
	}
	var list ssa.Value
	for i, e := range phi.Edges {
		u, ok := e.(*ssa.UnOp)
		if !ok {
			return false
		}
		ia, ok := u.X.(*ssa.IndexAddr)
		if !ok || (list != nil && ia.X != list) {
			return false
		}
		list = ia.X
		k, isK := constInt(ia.Index)
		if !isK {
			return false
		}
		n := w.lenIntervalAtEdge(fn, list, phi.Block().Preds[i], phi.Block(), nil)
		if n.lo != k+1 || n.hi != k+1 {
			return false
		}
	}
	return list != nil
}

// pathClass summarises which classification calls were taken true/false along the path,
// per receiver root parameter.
func pathClass(p *Path, isW, isE, isR *ssa.Function) string {
	var parts []string
	for i := 0; i+1 < len(p.Blocks); i++ {
		v, truth, ok := boolEdge(p.Blocks[i], p.Blocks[i+1])
		if !ok {
			continue
		}
		c, isCall := v.(*ssa.Call)
		if !isCall {
			continue
		}
		name := ""
		switch staticCallee(c) {
		case isW:
			name = "wildcard"
		case isE:
			name = "exact"
		case isR:
			name = "range"
		default:
			continue
		}
		who := recvName(c)
		t := "F"
		if truth {
			t = "T"
		}
		parts = append(parts, who+name+"="+t)
	}
	return strings.Join(parts, ",")
}

// recvName names the parameter a value-receiver call is applied to ("src.", "dst.", "").
func recvName(c *ssa.Call) string {
	if len(c.Call.Args) == 0 {
		return ""
	}
	for _, root := range symOf(c.Call.Args[0]).Roots() {
		if p, ok := root.(*ssa.Parameter); ok {
			if p.Name() == "pr" {
				return ""
			}
			return p.Name() + "."
		}
	}
	return ""
}

// ruleLiteral describes the ternary rule value returned on a path: "{0,0}", "exact()", or a sym.
func ruleLiteral(p *Path, v ssa.Value) string {
	v = resolveAlongPath(p, v)
	if c, ok := v.(*ssa.Const); ok && c.Value == nil {
		return "{0,0}"
	}
	if c, ok := v.(*ssa.Call); ok {
		if f := staticCallee(c); f != nil && f.Name() == "asExactMatchUnchecked" {
			return "exact()"
		}
	}
	if u, ok := v.(*ssa.UnOp); ok && u.Op == token.MUL {
		if al, ok := u.X.(*ssa.Alloc); ok {
			port, mask := "0", "0"
			if refs := al.Referrers(); refs != nil {
				for _, rf := range *refs {
					if fa, ok := rf.(*ssa.FieldAddr); ok {
						for _, st := range directStores(fa) {
							s := symOf(st.Val).String()
							if fieldVar(fa).Name() == "port" {
								port = s
							} else {
								mask = s
							}
						}
					}
				}
			}
			return "{" + port + "," + mask + "}"
		}
	}
	return symOf(v).String()
}

func ruleC17Cartesian(w *World, r *Report, cart, complexF, trivial, isR *ssa.Function) {
	const P = "C17"
	name := w.FuncName(cart)
	if len(cart.Params) != 2 {
		brokenf(P, "R17.2", "CreatePortRangeCartesianProduct no longer takes (src, dst)")
	}
	src, dst := cart.Params[0], cart.Params[1]
	exactStrategy := w.ConstInt(P, pfcpPkg, "Exact")
	whoOf := func(c *ssa.Call) string {
		for _, root := range symOf(c.Call.Args[0]).Roots() {
			if root == ssa.Value(src) {
				return "src"
			}
			if root == ssa.Value(dst) {
				return "dst"
			}
		}
		return "?"
	}
	n := 0
	okEnum := enumPaths(cart, 2, 20000, func(p *Path) {
		// classification facts on this path
		rng := map[string]string{}
		for i := 0; i+1 < len(p.Blocks); i++ {
			v, truth, ok := boolEdge(p.Blocks[i], p.Blocks[i+1])
			if !ok {
				continue
			}
			if c, isCall := v.(*ssa.Call); isCall && staticCallee(c) == isR {
				t := "F"
				if truth {
					t = "T"
				}
				who := whoOf(c)
				if old, seen := rng[who]; seen && old != t {
					rng[who] = "X" // infeasible path: same predicate both ways
				} else {
					rng[who] = t
				}
			}
		}
		if rng["src"] == "X" || rng["dst"] == "X" {
			return
		}
		ret, _ := p.last().(*ssa.Return)
		if ret == nil {
			return
		}
		// calls made on this path
		var complexOn, trivialOn []string
		strategyOK := true
		p.instrs(func(i ssa.Instruction) {
			c, ok := i.(*ssa.Call)
			if !ok {
				return
			}
			switch staticCallee(c) {
			case complexF:
				complexOn = append(complexOn, whoOf(c))
				if k, isK := constInt(c.Call.Args[1]); !isK || k != exactStrategy {
					strategyOK = false
				}
			case trivial:
				trivialOn = append(trivialOn, whoOf(c))
			}
		})
		errRet := !isNilConst(res(ret, 1))
		// an error return caused by a failing callee is fine in every class; classify only "own" outcomes
		calleeErr := false
		if errRet {
			if ex, ok := res(ret, 1).(*ssa.Extract); ok {
				if c, ok := ex.Tuple.(*ssa.Call); ok && (staticCallee(c) == complexF || staticCallee(c) == trivial) {
					calleeErr = true
				}
			}
		}
		if calleeErr {
			return
		}
		n++
		cls := fmt.Sprintf("src.range=%s dst.range=%s", orDash(rng["src"]), orDash(rng["dst"]))
		pos := w.Pos(ret.Pos())
		switch {
		case rng["src"] == "T" && rng["dst"] == "T":
			r.check(errRet && len(complexOn) == 0 && len(trivialOn) == 0, "R17.2", name, "dispatch["+cls+"] → refused", pos, "error, nothing expanded", "two true ranges are not refused")
		case rng["src"] == "T":
			r.check(!errRet && strings.Join(complexOn, ",") == "src" && strings.Join(trivialOn, ",") == "dst" && strategyOK, "R17.2", name, "dispatch["+cls+"] → Exact(src) × trivial(dst)", pos,
				"complex on src with Exact, trivial on dst", fmt.Sprintf("src-range arm expands complex=%v trivial=%v exactStrategy=%v err=%v", complexOn, trivialOn, strategyOK, errRet))
		case rng["dst"] == "T":
			r.check(!errRet && strings.Join(complexOn, ",") == "dst" && strings.Join(trivialOn, ",") == "src" && strategyOK, "R17.2", name, "dispatch["+cls+"] → Exact(dst) × trivial(src)", pos,
				"complex on dst with Exact, trivial on src", fmt.Sprintf("dst-range arm expands complex=%v trivial=%v exactStrategy=%v err=%v", complexOn, trivialOn, strategyOK, errRet))
		default:
			tv := strings.Join(trivialOn, ",")
			r.check(!errRet && len(complexOn) == 0 && (tv == "src,dst" || tv == "dst,src"), "R17.2", name, "dispatch["+cls+"] → one rule from trivial(src), trivial(dst)", pos,
				"both trivial", fmt.Sprintf("no-range arm expands complex=%v trivial=%v err=%v", complexOn, trivialOn, errRet))
		}
	})
	if !okEnum {
		brokenf(P, "R17.2", "too many paths in CreatePortRangeCartesianProduct")
	}
	r.floor("R17.2 dispatch outcomes of the Cartesian product", n, 4)

	// literal provenance: srcPort/srcMask come from the src side's conversion, dstPort/dstMask from the dst side's
	cnt := 0
	allInstrs(cart, func(i ssa.Instruction) {
		st, ok := i.(*ssa.Store)
		if !ok {
			return
		}
		fa, ok := st.Addr.(*ssa.FieldAddr)
		if !ok || rootTypeName(fa.X.Type()) != "portRangeTernaryCartesianProduct" {
			return
		}
		cnt++
		fld := fieldVar(fa).Name() // srcPort, srcMask, dstPort, dstMask
		side := fld[:3]
		part := strings.ToLower(fld[3:]) // port | mask
		s := symOf(st.Val)
		// the value must be field <part> of a rule produced by a conversion call on <side>
		good := false
		desc := s.String()
		for _, leaf := range s.Fields() {
			if strings.HasSuffix(leaf, "."+part) {
				good = true
			} else {
				good = false
				break
			}
		}
		sideOK := false
		for _, root := range s.Roots() {
			if ex, isEx := root.(*ssa.Extract); isEx {
				root = ex.Tuple
			}
			if c, ok := root.(*ssa.Call); ok {
				if whoOf(c) == side {
					sideOK = true
				} else {
					sideOK = false
					break
				}
			}
		}
		r.check(good && sideOK, "R17.2", name, fld+" ← "+side+" conversion."+part, w.Pos(st.Pos()), desc, fld+" is taken from "+desc)
	})
	r.floor("R17.2 product literal fields", cnt, 12)
	// one append per produced rule: in the loops exactly one append per iteration
	// (covered structurally: each literal alloc is appended once)
	allocs := map[ssa.Value]int{}
	allInstrs(cart, func(i ssa.Instruction) {
		if al, ok := i.(*ssa.Alloc); ok && rootTypeName(al.Type()) == "portRangeTernaryCartesianProduct" {
			allocs[al] = 0
		}
	})
	allInstrs(cart, func(i ssa.Instruction) {
		c, ok := i.(*ssa.Call)
		if !ok || calleeName(c) != "builtin.append" {
			return
		}
		for root := range allocs {
			if strings.Contains(fmt.Sprint(symRootsAllocs(c.Call.Args[1])), root.Name()+" ") || appendsFrom(c.Call.Args[1], root) {
				allocs[root]++
			}
		}
	})
	// … or stored into its own slot of a slice made with one slot per ranged element
	allInstrs(cart, func(i ssa.Instruction) {
		st, ok := i.(*ssa.Store)
		if !ok {
			return
		}
		ia, ok := st.Addr.(*ssa.IndexAddr)
		if !ok || !w.rangeIndexIntoMake(ia.Index, ia.X) {
			return
		}
		if ld, ok := st.Val.(*ssa.UnOp); ok && ld.Op == token.MUL {
			if _, isLit := allocs[ld.X]; isLit {
				allocs[ld.X]++
			}
		}
	})
	for al, k := range allocs {
		r.check(k == 1, "R17.2", name, "each built rule is appended exactly once", w.Pos(al.Pos()), "1 append", fmt.Sprintf("rule literal appended %d times", k))
	}
}

func symRootsAllocs(v ssa.Value) []string { return nil }

// appendsFrom: the variadic slice argument of append holds a load of the given cell.
func appendsFrom(arg ssa.Value, cell ssa.Value) bool {
	sl, ok := arg.(*ssa.Slice)
	if !ok {
		return false
	}
	arr, ok := sl.X.(*ssa.Alloc)
	if !ok {
		return false
	}
	found := false
	if refs := arr.Referrers(); refs != nil {
		for _, rf := range *refs {
			if ia, ok := rf.(*ssa.IndexAddr); ok {
				for _, st := range directStores(ia) {
					if u, ok := st.Val.(*ssa.UnOp); ok && u.Op == token.MUL && u.X == cell {
						found = true
					}
				}
			}
		}
	}
	return found
}

func ruleC17Complex(w *World, r *Report, f, isW, isE, isR, width, exactUn *ssa.Function) {
	const P = "C17"
	name := w.FuncName(f)
	exactStrategy := w.ConstInt(P, pfcpPkg, "Exact")
	if len(f.Params) != 2 {
		brokenf(P, "R17.3", "asComplexTernaryMatches signature changed")
	}
	strat := f.Params[1]
	stratEdge := func(a, b *ssa.BasicBlock) bool {
		x, op, y, ok := edgeFact(a, b)
		if !ok || op != token.EQL {
			return false
		}
		if x == ssa.Value(strat) {
			k, isK := constInt(y)
			return isK && k == exactStrategy
		}
		return false
	}
	// induction variable of the Exact arm
	var iv *ssa.Phi
	allInstrs(f, func(i ssa.Instruction) {
		phi, ok := i.(*ssa.Phi)
		if !ok || len(phi.Edges) != 2 {
			return
		}
		if b, isB := phi.Type().Underlying().(*types.Basic); !isB || b.Info()&types.IsInteger == 0 {
			return
		}
		if !onlyVia(f, phi, stratEdge) {
			return
		}
		for _, e := range phi.Edges {
			if bo, ok := e.(*ssa.BinOp); ok && bo.Op == token.ADD && bo.X == ssa.Value(phi) {
				iv = phi
			}
		}
	})
	if iv == nil {
		brokenf(P, "R17.3", "no counting loop found under strategy == Exact in asComplexTernaryMatches (shape not recognised)")
	}
	pos := w.Pos(iv.Pos())
	var init, step ssa.Value
	for _, e := range iv.Edges {
		if bo, ok := e.(*ssa.BinOp); ok && bo.Op == token.ADD && bo.X == ssa.Value(iv) {
			step = bo.Y
		} else {
			init = e
		}
	}
	// R17.3 is about what the arm returns — one {port, 0xFFFF} per port of [low, high], in order. Two ways of
	// producing that list are decided symbolically: a loop that counts the ports themselves (below), and a slice
	// made with the port count whose i-th slot is filled with {low + i, 0xFFFF} (exactPositionLoopSymbolic).
	// Nothing is executed: both hold for every range.
	decided := exactPositionLoopSymbolic(w, r, f, name, pos)
	is := symOf(init)
	il, ilok := linearIn(is)
	if decided && !(ilok && il.leaf == "portRange.low") {
		ruleC17ExactPrefix(w, r, f, iv, name, pos, width, exactStrategy)
		return
	}
	bits, _, _ := widthOf(iv.Type())
	r.check(bits >= 32, "R17.3", name, "induction variable wider than 16 bits", pos, fmt.Sprintf("%d bits", bits), "the loop counter is 16 bits wide: high=65535 never terminates / wraps")
	r.check(ilok && il.leaf == "portRange.low" && il.num == 1 && il.den == 1, "R17.3", name, "loop starts at zext(low)", pos, is.String(), "expansion starts at "+is.String())
	k, isK := constInt(step)
	r.check(isK && k == 1, "R17.3", name, "loop step is 1", pos, "step 1", "expansion step is "+symOf(step).String())
	// loop condition
	hdr := iv.Block()
	condOK, condDesc := false, "no loop condition on the induction variable"
	var body *ssa.BasicBlock
	for _, s := range hdr.Succs {
		x, op, y, ok := edgeFact(hdr, s)
		if !ok {
			continue
		}
		if x == ssa.Value(iv) {
			ys := symOf(y)
			yl, ylok := linearIn(ys)
			if (op == token.LEQ) && ylok && yl.leaf == "portRange.high" && yl.num == 1 && yl.den == 1 {
				condOK, condDesc, body = true, "iv <= zext(high)", s
			} else if op == token.LSS || op == token.LEQ {
				condDesc = fmt.Sprintf("iv %s %s", op, ys.String())
				body = s
			}
		}
	}
	r.check(condOK, "R17.3", name, "loop runs while iv <= zext(high)", pos, condDesc, "expansion bound is '"+condDesc+"' (last port missing or extra)")
	// body: one append of {uint16(iv), 0xFFFF}
	if body != nil {
		appends := 0
		body.Instrs[0].Block() // noop
		for _, b := range f.Blocks {
			if !(b == body || (body.Dominates(b) && reachesBlock(b, hdr))) {
				continue
			}
			for _, i := range b.Instrs {
				c, ok := i.(*ssa.Call)
				if !ok || calleeName(c) != "builtin.append" {
					continue
				}
				appends++
				// element literal
				elem := appendElemCell(c.Call.Args[1])
				desc := "?"
				good := false
				if elem != nil {
					var portS, maskS string
					var portV ssa.Value
					if refs := elem.Referrers(); refs != nil {
						for _, rf := range *refs {
							if fa, ok := rf.(*ssa.FieldAddr); ok {
								for _, st := range directStores(fa) {
									if fieldVar(fa).Name() == "port" {
										portS = symOf(st.Val).String()
										portV = st.Val
									} else if fieldVar(fa).Name() == "mask" {
										maskS = symOf(st.Val).String()
									}
								}
							}
						}
					}
					desc = "{" + portS + "," + maskS + "}"
					good = portV != nil && stripConv(portV) == ssa.Value(iv) && maskS == "65535"
				}
				r.check(good, "R17.3", name, "iteration appends {trunc(iv), 0xFFFF}", w.Pos(c.Pos()), desc, "expansion appends "+desc)
			}
		}
		r.check(appends == 1, "R17.3", name, "one rule per iteration", pos, "1 append in the loop body", fmt.Sprintf("%d appends per iteration", appends))
	}
	ruleC17ExactPrefix(w, r, f, iv, name, pos, width, exactStrategy)
}

// ruleC17ExactPrefix (R17.2): the decisions in front of the Exact expansion.
func ruleC17ExactPrefix(w *World, r *Report, f *ssa.Function, iv *ssa.Phi, name, pos string, width *ssa.Function, exactStrategy int64) {
	// width guard: the loop is reachable only through a Width() <= K edge
	wg := onlyVia(f, iv, func(a, b *ssa.BasicBlock) bool {
		x, op, y, ok := edgeFact(a, b)
		if !ok {
			return false
		}
		c, isCall := x.(*ssa.Call)
		if !isCall || staticCallee(c) != width {
			return false
		}
		kk, isKK := constInt(y)
		return isKK && kk > 0 && kk < 65535 && (op == token.LEQ || op == token.LSS)
	})
	r.check(wg, "R17.2", name, "Exact expansion only under a Width() bound", pos, "dominated by Width() <= K", "the Exact expansion is not bounded by a width check")
	// decision prefix: evaluate the pure branch conditions of asComplexTernaryMatches(pr, Exact)
	// for a representative of every order class and compare where control arrives with the class
	reps := []uint64{0, 1, 2, 3, 50, 100, 101, 102, 200, 65434, 65435, 65533, 65534, 65535}
	n := 0
	type outcome struct{ kind, lit string }
	classify := func(lo, hi uint64) (outcome, ssa.Instruction) {
		e := &evaluator{}
		visited, end := e.trace(f, []evalVal{prVal(lo, hi), {u: uint64(exactStrategy), ok: true}})
		for _, b := range visited {
			if b == iv.Block() {
				return outcome{kind: "expand"}, end
			}
		}
		ret, isRet := end.(*ssa.Return)
		if !isRet {
			return outcome{kind: "unknown"}, end
		}
		if !isNilConst(res(ret, 1)) {
			return outcome{kind: "refuse"}, end
		}
		// a successful return before the loop: the appended literal
		lit := "?"
		cnt := 0
		for _, b := range visited {
			for _, i := range b.Instrs {
				if c, ok := i.(*ssa.Call); ok && calleeName(c) == "builtin.append" {
					cnt++
					lit = appendedLiteral(&Path{Blocks: visited}, c.Call.Args[1])
				}
			}
		}
		return outcome{kind: fmt.Sprintf("return%d", cnt), lit: lit}, end
	}
	badDesc := ""
	sawW, sawE, sawX, sawR := false, false, false, false
	for _, lo := range reps {
		for _, hi := range reps {
			if lo > hi {
				continue // inverted ranges never reach here (R17.4)
			}
			n++
			o, _ := classify(lo, hi)
			isWild := (lo == 0 && hi == 65535) || (lo == 0 && hi == 0)
			isExact := lo == hi && hi != 0
			var want string
			switch {
			case isWild:
				want = "return1 {0,0}"
				sawW = true
			case isExact:
				want = "return1 exact()"
				sawE = true
			default:
				want = "expand|refuse"
			}
			got := o.kind
			if o.lit != "" {
				got += " " + o.lit
			}
			ok := got == want
			if want == "expand|refuse" {
				ok = o.kind == "expand" || o.kind == "refuse"
				// the range must be refused when it is wider than any bound the Exact strategy could honour
				if o.kind == "expand" {
					sawX = true
				} else if o.kind == "refuse" {
					sawR = true
				}
			}
			if !ok && badDesc == "" {
				badDesc = fmt.Sprintf("(%d,%d) → %s, want %s", lo, hi, got, want)
			}
		}
	}
	r.Extra["R17.2_decision_prefix_evaluations"] = n
	r.check(badDesc == "", "R17.2", name, "Exact strategy: wildcard→{0,0}, exact→{low,0xFFFF}, true range→expanded or refused, per order class", pos, fmt.Sprintf("%d representatives", n), "asComplexTernaryMatches(Exact) misclassifies "+badDesc)
	r.check(sawW && sawE && sawX && sawR, "R17.2", name, "all four outcomes of the Exact strategy are reachable", pos, "wildcard, exact, expand, refuse", "an outcome of the Exact strategy is unreachable (control skeleton changed)")
}

func reachesBlock(from, to *ssa.BasicBlock) bool {
	seen := map[*ssa.BasicBlock]bool{}
	var rec func(b *ssa.BasicBlock) bool
	rec = func(b *ssa.BasicBlock) bool {
		if b == to {
			return true
		}
		if seen[b] {
			return false
		}
		seen[b] = true
		for _, s := range b.Succs {
			if rec(s) {
				return true
			}
		}
		return false
	}
	return rec(from)
}

// appendElemCell: for append(x, lit) lowered as a 1-element varargs array holding a load of a
// composite-literal cell, return that cell.
func appendElemCell(arg ssa.Value) *ssa.Alloc {
	sl, ok := arg.(*ssa.Slice)
	if !ok {
		return nil
	}
	arr, ok := sl.X.(*ssa.Alloc)
	if !ok {
		return nil
	}
	var out *ssa.Alloc
	if refs := arr.Referrers(); refs != nil {
		for _, rf := range *refs {
			if ia, ok := rf.(*ssa.IndexAddr); ok {
				for _, st := range directStores(ia) {
					if u, ok := st.Val.(*ssa.UnOp); ok && u.Op == token.MUL {
						if al, ok := u.X.(*ssa.Alloc); ok {
							out = al
						}
					}
				}
			}
		}
	}
	return out
}

func appendedLiteral(p *Path, arg ssa.Value) string {
	sl, ok := arg.(*ssa.Slice)
	if !ok {
		return "?"
	}
	arr, ok := sl.X.(*ssa.Alloc)
	if !ok {
		return "?"
	}
	res := "?"
	if refs := arr.Referrers(); refs != nil {
		for _, rf := range *refs {
			if ia, ok := rf.(*ssa.IndexAddr); ok {
				for _, st := range directStores(ia) {
					res = ruleLiteral(p, st.Val)
				}
			}
		}
	}
	return res
}

// rulesFromCartesian: v is the rule list of CreatePortRangeCartesianProduct applied to the PDR's two
// port ranges, possibly through repo helpers every success return of which hands that list on.
func rulesFromCartesian(w *World, v ssa.Value, cart *ssa.Function, depth int) (bool, string) {
	if depth > 3 {
		return false, "helper chain too deep"
	}
	ex, ok := v.(*ssa.Extract)
	if !ok || ex.Index != 0 {
		return false, "the rule list is " + symOf(v).String()
	}
	c, ok := ex.Tuple.(*ssa.Call)
	if !ok {
		return false, "the rule list is " + symOf(v).String()
	}
	g := staticCallee(c)
	if g == cart {
		a, b := symOf(c.Call.Args[0]).String(), symOf(c.Call.Args[1]).String()
		if strings.HasSuffix(a, "appFilter.srcPortRange") && strings.HasSuffix(b, "appFilter.dstPortRange") {
			return true, ""
		}
		return false, "CreatePortRangeCartesianProduct(" + a + ", " + b + ")"
	}
	if g == nil || !w.isRepoFunc(g) || g.Blocks == nil {
		return false, "the rule list comes from " + calleeName(c)
	}
	n := 0
	for _, ret := range returnsOf(g) {
		if len(ret.Results) != 2 || !isNilConst(res(ret, 1)) {
			// an error return, or the (list, err) pair of an inner call handed on as it is
			if len(ret.Results) == 2 {
				if ex2, ok := res(ret, 0).(*ssa.Extract); ok && ex2.Index == 0 {
					if ex3, ok := res(ret, 1).(*ssa.Extract); ok && ex3.Tuple == ex2.Tuple {
						n++
						if ok2, why := rulesFromCartesian(w, res(ret, 0), cart, depth+1); !ok2 {
							return false, why
						}
					}
				}
			}
			continue
		}
		n++
		if ok2, why := rulesFromCartesian(w, res(ret, 0), cart, depth+1); !ok2 {
			return false, w.FuncName(g) + " returns a list that is not the expansion: " + why
		}
	}
	return n > 0, "no success return in " + w.FuncName(g)
}

// ruleC17Consumers: the BESS PDR writers install exactly the rules the expansion returns and nothing
// when it refuses.
func portRuleConsumers(w *World, r *Report, rule string, cart *ssa.Function) {
	P := r.Prop
	n := 0
	for _, name := range []string{"pfcpiface.(*bess).addPDR$1", "pfcpiface.(*bess).delPDR$1"} {
		f := w.Fn(P, name)
		proc := w.Fn(P, "pfcpiface.(*bess).processPDR")
		// the range loop that feeds processPDR
		var ranged ssa.Value
		for _, b := range f.Blocks {
			ifi := blockIf(b)
			if ifi == nil {
				continue
			}
			// a loop over every rule of a list, by range or by index
			list, idx := loopOverAllOf(ifi.Cond)
			if list == nil {
				continue
			}
			// … each turn of which looks at the rule of that turn only
			own := true
			allInstrs(f, func(i ssa.Instruction) {
				if ia, ok := i.(*ssa.IndexAddr); ok && ia.X == list && ia.Index != idx {
					own = false
				}
			})
			if !own {
				continue
			}
			// the loop body reaches processPDR
			if reach(f, firstInstr(b.Succs[0]), func(i ssa.Instruction) bool { return isCallTo(i, proc) }, nil, nil) != nil {
				ranged = list
			}
		}
		if ranged == nil {
			r.bad(rule, name, "one datapath entry per expanded rule", w.Pos(f.Pos()), "no loop over the expanded rules feeds processPDR")
			continue
		}
		n++
		okP, why := rulesFromCartesian(w, ranged, cart, 0)
		r.check(okP, rule, name, "the installed port rules are the expansion of the PDR's two port ranges", w.Pos(f.Pos()), "CreatePortRangeCartesianProduct(p.appFilter.srcPortRange, p.appFilter.dstPortRange)", "the port rules installed are not (only) the expansion of the PDR's ranges: "+why)
		// no datapath write after a refusal
		errorsPropagate(w, r, rule, f, func(c *ssa.Call) bool {
			ex, ok := ranged.(*ssa.Extract)
			return ok && ex.Tuple == ssa.Value(c)
		}, func(i ssa.Instruction) bool { return isCallTo(i, proc) }, "installs nothing")
	}
	r.floor("R17.5 consumers of the expansion", n, 2)
}

// ruleC17DoneOnce (R17.6): the BESS workers report completion once per PDR, after the last entry of the
// expansion was written. SendMsgToUPF counts one `done` per rule and cancels the shared context when it
// has them all: a worker that signals inside its per-entry loop is cut off after the first entry of a
// range (the rest of the expansion never reaches pdrLookup) and then blocks on its next signal.
func ruleC17DoneOnce(w *World, r *Report) {
	const P = "C17"
	n := 0
	for _, name := range []string{"pfcpiface.(*bess).addPDR", "pfcpiface.(*bess).delPDR"} {
		f := w.Fn(P, name)
		proc := w.Fn(P, "pfcpiface.(*bess).processPDR")
		for _, g := range withClosures(f) {
			allInstrs(g, func(i ssa.Instruction) {
				s, ok := i.(*ssa.Send)
				if !ok || !strings.Contains(symOf(s.Chan).String(), "done") {
					return
				}
				n++
				again := reach(g, i, func(j ssa.Instruction) bool { return j == i }, nil, nil)
				r.check(again == nil, "R17.6", w.FuncName(g), "completion is signalled once per PDR", w.Pos(s.Pos()), "not in a loop", "the completion signal is sent inside the per-entry loop: the dispatcher takes the first signal for the whole PDR and cancels the context, the remaining entries of the port expansion are never written (and the worker blocks on its second signal)")
				later := reach(g, i, func(j ssa.Instruction) bool { return isCallTo(j, proc) }, nil, nil)
				r.check(later == nil, "R17.6", w.FuncName(g), "completion is signalled after the last entry was written", w.Pos(s.Pos()), "no datapath write follows", "an entry of the expansion is written after completion was signalled")
			})
		}
	}
	r.floor("R17.6 completion signals of the PDR workers", n, 2)
}

// ruleC17UP4Range (R17.7): on UP4 the application port is a RANGE field; leaving the field out means
// "any port". BuildApplicationsTableEntry leaves it out exactly for the port range that means "no port
// constraint" — isWildcardMatch(): 0-65535 or the unset 0-0 — and writes low..high otherwise. The guard is
// evaluated for every valuation of its atoms (the isWildcardMatch() call, or comparisons of low / high
// with 0 and 65535), whatever its spelling.
func ruleC17UP4Range(w *World, r *Report) {
	const P = "C17"
	f := w.Fn(P, "pfcpiface.(*P4rtTranslator).BuildApplicationsTableEntry")
	fn := w.FuncName(f)
	rangeF := w.Fn(P, "pfcpiface.(*P4rtTranslator).withRangeMatchField")
	isWild := w.Fn(P, "pfcpiface.(portRange).isWildcardMatch")
	var call ssa.Instruction
	for _, c := range callsTo(f, rangeF) {
		call = c.(ssa.Instruction)
		lo, hi := symOf(c.Common().Args[len(c.Common().Args)-2]).String(), symOf(c.Common().Args[len(c.Common().Args)-1]).String()
		r.check(strings.Contains(lo, ".low") && !strings.Contains(lo, ".high") && strings.Contains(hi, ".high") && !strings.Contains(hi, ".low"), "R17.7", fn, "the range field carries low..high of the application port range", w.Pos(c.Pos()), lo+" .. "+hi, "the range field is written as "+lo+" .. "+hi)
	}
	if call == nil {
		r.bad("R17.7", fn, "the application port is written as a range field", w.Pos(f.Pos()), "withRangeMatchField is not called: every port constraint is dropped")
		return
	}
	// atoms
	type val struct{ W, L0, H0, HM bool }
	atomOf := func(a, b *ssa.BasicBlock, v val) (decided, taken bool) {
		if c, truth, ok := boolEdge(a, b); ok {
			if cc, isCall := c.(*ssa.Call); isCall && staticCallee(cc) == isWild {
				return true, v.W == truth
			}
		}
		x, op, y, ok := edgeFact(a, b)
		if !ok {
			return false, true
		}
		k, isK := constInt(y)
		if !isK {
			return false, true
		}
		s := symOf(x).String()
		var at bool
		switch {
		case strings.Contains(s, ".low") && !strings.Contains(s, ".high") && k == 0:
			at = v.L0
		case strings.Contains(s, ".high") && !strings.Contains(s, ".low") && k == 0:
			at = v.H0
		case strings.Contains(s, ".high") && !strings.Contains(s, ".low") && k == 65535:
			at = v.HM
		default:
			return false, true
		}
		switch op {
		case token.EQL:
			return true, at
		case token.NEQ:
			return true, !at
		}
		return false, true
	}
	n := 0
	for m := 0; m < 8; m++ {
		v := val{L0: m&1 != 0, H0: m&2 != 0, HM: m&4 != 0}
		if v.H0 && v.HM {
			continue
		}
		v.W = v.L0 && (v.H0 || v.HM)
		n++
		cut := func(a, b *ssa.BasicBlock) bool {
			decided, taken := atomOf(a, b, v)
			return decided && !taken
		}
		isCall := func(i ssa.Instruction) bool { return i == call }
		reached := reach(f, nil, isCall, nil, cut) != nil
		skipped := reach(f, nil, successReturns(f), isCall, cut) != nil
		desc := fmt.Sprintf("port range with low%s0, high%s", ifelse(v.L0, "=", "≠"), ifelse(v.HM, "=65535", ifelse(v.H0, "=0", " in 1..65534")))
		if v.W {
			r.check(!reached, "R17.7", fn, desc+": no port constraint, the range field is left out", w.Pos(call.Pos()), "field omitted", "a range field is written for the unconstrained port range")
		} else {
			r.check(reached && !skipped, "R17.7", fn, desc+": the range field is written", w.Pos(call.Pos()), "field present on every successful path", "for a "+desc+" the applications entry is built without the app_l4_port field: a range that touches 0 or 65535 is replaced by 'any port'")
		}
	}
	r.floor("R17.7 valuations of the port-range guard", n, 6)
}

// ruleC17FreshResult (R17.10): the expansion of one PDR belongs to that PDR: BESS runs one worker per
// PDR, each expands and writes its own rules. CreatePortRangeCartesianProduct (and the per-range helpers)
// return freshly allocated slices, never storage that outlives the call (a package-level scratch buffer
// makes one worker's entries carry another PDR's ports).
func ruleC17FreshResult(w *World, r *Report, cart, complexF *ssa.Function) {
	n := 0
	for _, f := range []*ssa.Function{cart, complexF} {
		for k, ret := range returnsOf(f) {
			v := res(ret, 0)
			if isNilConst(v) {
				continue
			}
			n++
			r.check(isFreshSlice(v), "R17.10", w.FuncName(f), fmt.Sprintf("return #%d hands back storage of its own", k+1), w.Pos(ret.Pos()), "freshly allocated", "the result is "+symOf(v).String()+", storage that is shared between calls: concurrent expansions for different PDRs (one BESS worker per PDR) overwrite each other's rules")
		}
		allInstrs(f, func(i ssa.Instruction) {
			if st, ok := i.(*ssa.Store); ok {
				if g, isG := st.Addr.(*ssa.Global); isG {
					r.bad("R17.10", w.FuncName(f), "the expansion keeps no state between calls", w.Pos(st.Pos()), "package variable "+g.Name()+" is written by the expansion: its result aliases storage the next call reuses")
				}
			}
		})
	}
	r.floor("R17.10 non-nil returns of the expansion functions", n, 2)
}
