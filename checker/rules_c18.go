package main

import (
	"encoding/json"
	"fmt"
	"go/constant"
	"go/token"
	"go/types"
	"os"
	"path/filepath"
	"regexp"
	"regexp/syntax"
	"sort"
	"strings"
	"time"

	"golang.org/x/tools/go/ssa"
)

func init() { rules["C18"] = ruleC18 }

// validated fact: under cond, the validator's nil return implies that family(field) succeeded.
type confFact struct {
	family string // "duration", "cidr", "ip-each", "nonzero", "empty", "member"
	field  string // "Conf.RespTimeout"
	cond   string // "" (always) | "Conf.EnableP4rt" | "!Conf.EnableP4rt" | …
}

func (f confFact) String() string {
	c := f.cond
	if c == "" {
		c = "always"
	}
	return f.family + "(" + f.field + ") when " + c
}

func ruleC18(w *World, r *Report) {
	const P = "C18"
	r.Explanation = "R18.1 LoadConfigFile: every success return is dominated by validateConf(conf)==nil on the value that is returned, no field is written after validation, every error return hands back the zero Conf; R18.2 default table: each documented default is stored with the documented constant (2s, 5, 15s, 5s, info, TC 3) — pre-decode defaults before Unmarshal, post-decode defaults only under 'field is zero' (and heartbeat only when enabled); no other field is rewritten; " +
		"R18.3 validator facts: for each (parser, field, condition) the nil return of validateConf is unreachable unless the parse succeeded, and under the condition every path to it runs the parse; mode ∈ literal set ⊆ the modes conf/ports.py accepts for BESS, mode empty for P4; every peer is parsed (full loop); R18.4 consumer⊆validator: every parse of a Conf field whose failure ends the process (NewUPF, UP4.SetUpfInfo, MustParseStrIP) is covered by a validator fact whose condition is implied by the consumer's; the UP4 datapath is only constructed under EnableP4rt; " +
		"R18.5 crash obligations of the loader functions, the comment pattern compiles; R18.6 structure of the comment pattern (regexp/syntax tree): line comment to end of line under (?m), block comment with a lazy body that cannot cross a newline; R18.7 shipped samples: comments only of the two supported shapes and outside strings, no string contains a comment marker, Go-known keys carry values of the field's JSON kind, validator-relevant literals satisfy the validator's facts."
	r.Explanation += " R18.8 no custom UnmarshalJSON/UnmarshalText between Conf and a pre-decode default replaces its receiver with a value that does not start from the receiver."
	r.Explanation += " R18.1 (cont.) the file is decoded into a configuration local to the call."
	r.Explanation += " R18.1/R18.3 (cont.) the configuration cell is the decoder's target, temporaries copied into it are followed; the mode set may be a package-level table or a switch."
	r.NotDecided = "behaviour of encoding/json, regexp and time.ParseDuration themselves; 'every sample loads' beyond the cross-artifact agreement of R18.7; NewIPPool's own size limit (a /31 or /32 pool parses but is refused at start-up)"

	load := w.Fn(P, "pfcpiface.LoadConfigFile")
	val := w.Fn(P, "pfcpiface.validateConf")
	rm := w.Fn(P, "pfcpiface.removeComments")
	ln, vn := w.FuncName(load), w.FuncName(val)

	// ---------- R18.1
	// the configuration of this call: the cell the decoder writes into (a composite literal or a helper that
	// prepares the pre-decode defaults leaves further cells of the type, copied into this one)
	var confCell *ssa.Alloc
	allInstrs(load, func(i ssa.Instruction) {
		if c, ok := i.(*ssa.Call); ok && calleeName(c) == "encoding/json.Unmarshal" && len(c.Call.Args) == 2 {
			tgt := c.Call.Args[1]
			if mi, ok := tgt.(*ssa.MakeInterface); ok {
				tgt = mi.X
			}
			if a, ok := tgt.(*ssa.Alloc); ok && rootTypeName(a.Type()) == "Conf" {
				confCell = a
			}
		}
	})
	if confCell == nil {
		n := 0
		allInstrs(load, func(i ssa.Instruction) {
			if a, ok := i.(*ssa.Alloc); ok && rootTypeName(a.Type()) == "Conf" {
				confCell = a
				n++
			}
		})
		if n > 1 {
			confCell = nil
		}
	}
	if confCell == nil {
		// where does the decoder write to?
		target := ""
		allInstrs(load, func(i ssa.Instruction) {
			if c, ok := i.(*ssa.Call); ok && calleeName(c) == "encoding/json.Unmarshal" && len(c.Call.Args) == 2 {
				target = symOf(c.Call.Args[1]).String()
				if mi, ok := c.Call.Args[1].(*ssa.MakeInterface); ok {
					target = valueText(mi.X)
					if g, isG := mi.X.(*ssa.Global); isG {
						target = "the package variable " + g.Name()
					}
				}
			}
		})
		if target == "" {
			brokenf(P, "R18.1", "conf variable not found in LoadConfigFile")
		}
		r.bad("R18.1", ln, "every load starts from a configuration of its own", w.Pos(load.Pos()), "the file is decoded into "+target+", storage that outlives the call: a second load (and a load after a rejected one) inherits what earlier documents set — documented defaults and a missing mode are not what the file says any more")
		return
	}
	vcalls := callsTo(load, val)
	if len(vcalls) != 1 {
		r.bad("R18.1", ln, "validateConf is called once", w.Pos(load.Pos()), fmt.Sprintf("%d calls of validateConf in the loader", len(vcalls)))
		return
	}
	vcall := vcalls[0].(*ssa.Call)
	if u, ok := vcall.Call.Args[0].(*ssa.UnOp); !ok || u.X != ssa.Value(confCell) {
		r.bad("R18.1", ln, "the validated value is the loaded configuration", w.Pos(vcall.Pos()), "validateConf is applied to "+symOf(vcall.Call.Args[0]).String())
	} else {
		r.ok("R18.1", ln, "the validated value is the loaded configuration", w.Pos(vcall.Pos()), "validateConf(*conf)")
	}
	var unm *ssa.Call
	allInstrs(load, func(i ssa.Instruction) {
		if c, ok := i.(*ssa.Call); ok && calleeName(c) == "encoding/json.Unmarshal" {
			unm = c
		}
	})
	if unm == nil {
		brokenf(P, "R18.1", "json.Unmarshal not found in LoadConfigFile")
	}
	nRet := 0
	for k, ret := range returnsOf(load) {
		nRet++
		if isNilConst(res(ret, 1)) {
			u, ok := res(ret, 0).(*ssa.UnOp)
			if raw, isLoad := ret.Results[0].(*ssa.UnOp); isLoad && raw.X == ssa.Value(confCell) {
				// (res looks through a cell with a single whole store: the copy of an assembled literal)
				u, ok = raw, true
			}
			r.check(ok && u.X == ssa.Value(confCell), "R18.1", ln, fmt.Sprintf("success return #%d returns the validated configuration", k+1), w.Pos(ret.Pos()), "*conf", "the success return hands back "+symOf(res(ret, 0)).String())
			g := errGuarded(load, vcall, vcall, func(i ssa.Instruction) bool { return i == ssa.Instruction(ret) }) && instrDominates(vcall, ret)
			r.check(g, "R18.1", ln, fmt.Sprintf("success return #%d only after validateConf returned nil", k+1), w.Pos(ret.Pos()), "dominated by validateConf()==nil", "a configuration can be returned without (successful) validation")
			g2 := errGuarded(load, unm, unm, func(i ssa.Instruction) bool { return i == ssa.Instruction(ret) }) && instrDominates(unm, ret)
			r.check(g2, "R18.1", ln, fmt.Sprintf("success return #%d only after the document decoded", k+1), w.Pos(ret.Pos()), "dominated by Unmarshal()==nil", "a configuration can be returned although decoding failed")
		} else {
			c, isConst := res(ret, 0).(*ssa.Const)
			r.check(isConst && c.Value == nil, "R18.1", ln, fmt.Sprintf("error return #%d hands back the zero configuration", k+1), w.Pos(ret.Pos()), "Conf{}", "an error return hands back a partially filled configuration")
		}
	}
	r.floor("R18.1 loader returns", nRet, 4)
	// the decoded bytes are the comment-stripped file
	{
		s := symOf(unm.Call.Args[0]).String()
		r.check(strings.Contains(s, "removeComments#0(") || strings.Contains(s, "removeComments("), "R18.1", ln, "the decoder sees the comment-stripped text", w.Pos(unm.Pos()), s, "Unmarshal is applied to "+s)
		tgt := unm.Call.Args[1]
		if mi, ok := tgt.(*ssa.MakeInterface); ok {
			tgt = mi.X
		}
		r.check(tgt == ssa.Value(confCell), "R18.1", ln, "the document is decoded into the returned configuration", w.Pos(unm.Pos()), "&conf", "Unmarshal decodes into "+symOf(tgt).String())
	}

	// ---------- R18.2 defaults
	type dflt struct {
		want     int64
		via      string // "" | "String" | "Seconds"
		pre      bool   // stored before decoding
		extra    string // extra governing field
		doc      string
		consumed bool
	}
	infoLevel := int64(0)
	if zp := w.importedConst("go.uber.org/zap/zapcore", "InfoLevel"); zp != nil {
		infoLevel = *zp
	} else {
		brokenf(P, "R18.2", "zapcore.InfoLevel not found")
	}
	table := map[string]*dflt{
		"LogLevel":             {want: infoLevel, pre: true, doc: "log level info"},
		"P4rtcIface.DefaultTC": {want: 3, pre: true, doc: "default traffic class 3"},
		"RespTimeout":          {want: int64(2 * time.Second), via: "String", doc: "response timeout 2s"},
		"ReadTimeout":          {want: int64(15 * time.Second), via: "Seconds", doc: "read timeout 15s"},
		"MaxReqRetries":        {want: 5, doc: "5 retries"},
		"HeartBeatInterval":    {want: int64(5 * time.Second), via: "String", extra: "EnableHBTimer", doc: "heartbeat interval 5s when heartbeats are enabled"},
	}
	// temporaries the configuration is assembled in before it is copied, whole, to where it lives (a composite
	// literal, nested literals, a helper that returns the pre-decode defaults): temp → path prefix below conf
	type alias struct {
		prefix string
		copyAt *ssa.Store
	}
	aliases := map[*ssa.Alloc]alias{}
	copies := map[*ssa.Store]bool{}
	pathBelowConf := func(addr ssa.Value) (string, bool) {
		if p, ok := fieldPathBelow(addr, confCell); ok {
			return p, true
		}
		for a, al := range aliases {
			if p, ok := fieldPathBelow(addr, a); ok {
				if al.prefix == "" || p == "" {
					return al.prefix + p, true
				}
				return al.prefix + "." + p, true
			}
		}
		return "", false
	}
	for changed := true; changed; {
		changed = false
		allInstrs(load, func(i ssa.Instruction) {
			st, ok := i.(*ssa.Store)
			if !ok || copies[st] {
				return
			}
			u, isLoad := st.Val.(*ssa.UnOp)
			if !isLoad || u.Op != token.MUL {
				return
			}
			tmp, isAlloc := u.X.(*ssa.Alloc)
			if !isAlloc || tmp == confCell {
				return
			}
			if _, known := aliases[tmp]; known {
				return
			}
			prefix, rooted := pathBelowConf(st.Addr)
			if !rooted || !instrDominates(st, unm) {
				return
			}
			// the temporary is written field by field and read once, by this copy
			for _, ref := range *tmp.Referrers() {
				switch ref := ref.(type) {
				case *ssa.FieldAddr:
				case *ssa.UnOp:
					if ref != u {
						return
					}
				case *ssa.DebugRef:
				default:
					return
				}
			}
			aliases[tmp] = alias{prefix, st}
			copies[st] = true
			changed = true
		})
	}
	allInstrs(load, func(i ssa.Instruction) {
		st, ok := i.(*ssa.Store)
		if !ok || copies[st] {
			return
		}
		path, rooted := pathBelowConf(st.Addr)
		if !rooted {
			return
		}
		if path == "" {
			// `return Conf{}, err` with a named result is a store of the zero value right before the return
			if c, isC := st.Val.(*ssa.Const); isC && c.Value == nil {
				if _, isRet := st.Block().Instrs[len(st.Block().Instrs)-1].(*ssa.Return); isRet {
					return
				}
			}
			r.bad("R18.2", ln, "the configuration is only refined field by field", w.Pos(st.Pos()), "the whole configuration is overwritten after decoding")
			return
		}
		for a, al := range aliases {
			if _, below := fieldPathBelow(st.Addr, a); below && !instrDominates(st, al.copyAt) {
				r.bad("R18.2", ln, path+" is written before the assembled value is copied", w.Pos(st.Pos()), "the store into the temporary comes after the copy and is lost")
				return
			}
		}
		d := table[path]
		if d == nil {
			r.bad("R18.2", ln, "only documented defaults are filled in ("+path+")", w.Pos(st.Pos()), "the loader rewrites "+path+", which has no documented default")
			return
		}
		d.consumed = true
		// never after validation
		r.check(reach(load, vcall, func(j ssa.Instruction) bool { return j == i }, nil, nil) == nil, "R18.2", ln, path+" is final before validation", w.Pos(st.Pos()), "store precedes validateConf", path+" is modified after validateConf looked at it")
		consts, calls, readsSelf := constLeaves(w, st.Val, path, confCell, 0)
		okVal := len(consts) == 1 && consts[0] == d.want
		if d.via != "" {
			okVal = okVal && calls["(time.Duration)."+d.via]
		}
		r.check(okVal, "R18.2", ln, "default of "+path+": "+d.doc, w.Pos(st.Pos()), fmt.Sprintf("constant %d%s", d.want, ifelse(d.via != "", " via Duration."+d.via, "")), fmt.Sprintf("%s defaults to constant(s) %v (documented: %s)", path, consts, d.doc))
		if d.pre {
			r.check(instrDominates(st, unm), "R18.2", ln, path+" default is set before decoding (the file overrides it)", w.Pos(st.Pos()), "dominates Unmarshal", path+" is forced after decoding: the file's value is lost")
			return
		}
		r.check(instrDominates(unm, st), "R18.2", ln, path+" default is applied after decoding", w.Pos(st.Pos()), "after Unmarshal", path+" default is written before decoding")
		if !readsSelf {
			g := onlyVia(load, st, func(a, b *ssa.BasicBlock) bool { return zeroEdge(a, b, path, confCell) })
			r.check(g, "R18.2", ln, path+" default only replaces a missing value", w.Pos(st.Pos()), "under "+path+" == zero", path+" is overwritten even when the file sets it")
		} else {
			okH, why := helperDefaultShape(w, st.Val, path, confCell)
			r.check(okH, "R18.2", ln, path+" default only replaces a missing value", w.Pos(st.Pos()), why, path+": "+why)
		}
		if d.extra != "" {
			g := onlyVia(load, st, func(a, b *ssa.BasicBlock) bool {
				v, truth, ok := boolEdge(a, b)
				if !ok || !truth {
					return false
				}
				p, rooted := loadPathBelow(v, confCell)
				return rooted && p == d.extra
			})
			r.check(g, "R18.2", ln, path+" default only when "+d.extra, w.Pos(st.Pos()), "under "+d.extra, path+" is defaulted although "+d.extra+" is off")
		}
	})
	var names []string
	for k := range table {
		names = append(names, k)
	}
	sort.Strings(names)
	for _, k := range names {
		r.check(table[k].consumed, "R18.2", ln, "documented default present: "+table[k].doc, w.Pos(load.Pos()), "stored", "the loader no longer fills in the default for "+k+" ("+table[k].doc+")")
	}
	// and every default guarantees its field on every path to validation
	for _, k := range names {
		d := table[k]
		if d.pre {
			continue
		}
		// path from Unmarshal to validateConf that neither stores the field nor takes the "field != zero" edge
		hit := reach(load, unm, func(i ssa.Instruction) bool { return i == ssa.Instruction(vcall) }, func(i ssa.Instruction) bool {
			st, ok := i.(*ssa.Store)
			if !ok {
				return false
			}
			p, rooted := fieldPathBelow(st.Addr, confCell)
			return rooted && p == k
		}, func(a, b *ssa.BasicBlock) bool {
			if nonZeroEdge(a, b, k, confCell) {
				return true
			}
			if d.extra != "" {
				v, truth, ok := boolEdge(a, b)
				if ok && !truth {
					if p, rooted := loadPathBelow(v, confCell); rooted && p == d.extra {
						return true
					}
				}
			}
			return false
		})
		r.check(hit == nil, "R18.2", ln, k+" is set on every path that reaches validation with it missing", w.Pos(load.Pos()), "no path skips the default", "a path reaches validateConf with "+k+" still missing")
	}

	// ---------- R18.3 validator facts
	facts := validatorFacts(w, r, val)
	wantFacts := []confFact{
		{"duration", "Conf.RespTimeout", ""},
		{"duration", "Conf.HeartBeatInterval", "Conf.EnableHBTimer"},
		{"cidr", "Conf.P4rtcIface.AccessIP", "Conf.EnableP4rt"},
		{"cidr", "Conf.CPIface.UEIPPool", "Conf.EnableP4rt"},
		{"cidr", "Conf.CPIface.UEIPPool", "Conf.CPIface.EnableUeIPAlloc"},
		{"ip-each", "Conf.CPIface.Peers", ""},
		{"nonzero", "Conf.ReadTimeout", ""},
		{"nonzero", "Conf.MaxReqRetries", ""},
		{"empty", "Conf.Mode", "Conf.EnableP4rt"},
		{"member", "Conf.Mode", "!Conf.EnableP4rt"},
	}
	for _, f := range wantFacts {
		r.check(facts[f], "R18.3", vn, "validated: "+f.String(), w.Pos(val.Pos()), "nil return implies it", "validateConf can return nil although "+f.String()+" does not hold: the loader then returns a configuration the property excludes")
	}
	ruleC18Modes(w, r, val)

	// ---------- R18.4 consumers
	ruleC18Consumers(w, r, facts)

	// ---------- R18.5 obligations
	{
		funcs := map[*ssa.Function]bool{load: true, val: true, rm: true}
		eng := newEngine(w, r, "R18.5", funcs)
		for _, f := range sortedFuncs(w, funcs) {
			eng.idx(f)
			eng.nilObls(f)
			eng.taObls(f)
			eng.exitObls(f)
			eng.divObls(f)
		}
	}
	// ---------- R18.6 the pattern
	ruleC18Pattern(w, r, rm)
	// ---------- R18.7 samples
	ruleC18Samples(w, r, val)
	preDefaults := map[string]bool{}
	for k, d := range table {
		if d.pre {
			preDefaults[k] = true
		}
	}
	ruleC18CustomDecoders(w, r, preDefaults)
}

// importedConst finds an integer constant of an imported (non-repo) package.
func (w *World) importedConst(pkgPath, name string) *int64 {
	for _, p := range w.Pkgs {
		for ip, imp := range p.Imports {
			if ip != pkgPath || imp.Types == nil {
				continue
			}
			if c, ok := imp.Types.Scope().Lookup(name).(*types.Const); ok {
				if v, exact := constant.Int64Val(constant.ToInt(c.Val())); exact {
					return &v
				}
			}
		}
	}
	return nil
}

// fieldPathBelow: addr is &root.A.B → "A.B".
func fieldPathBelow(addr ssa.Value, root ssa.Value) (string, bool) {
	var parts []string
	for i := 0; i < 8; i++ {
		if addr == root {
			for l, rr := 0, len(parts)-1; l < rr; l, rr = l+1, rr-1 {
				parts[l], parts[rr] = parts[rr], parts[l]
			}
			return strings.Join(parts, "."), true
		}
		fa, ok := addr.(*ssa.FieldAddr)
		if !ok {
			return "", false
		}
		if fv := fieldVar(fa); fv != nil {
			parts = append(parts, fv.Name())
		}
		addr = fa.X
	}
	return "", false
}

func loadPathBelow(v ssa.Value, root ssa.Value) (string, bool) {
	u, ok := v.(*ssa.UnOp)
	if !ok || u.Op != token.MUL {
		return "", false
	}
	return fieldPathBelow(u.X, root)
}

func isZeroConst(v ssa.Value) bool {
	c, ok := v.(*ssa.Const)
	if !ok {
		return false
	}
	if c.Value == nil {
		return true
	}
	switch c.Value.Kind() {
	case constant.String:
		return constant.StringVal(c.Value) == ""
	case constant.Int:
		k, _ := constant.Int64Val(c.Value)
		return k == 0
	}
	return false
}

// zeroEdge: the edge establishes root.path == zero value (in any spelling of the test, see zeroTest).
func zeroEdge(a, b *ssa.BasicBlock, path string, root ssa.Value) bool {
	v, isZero, ok := zeroTest(a, b)
	if !ok || !isZero {
		return false
	}
	p, rooted := loadPathBelow(v, root)
	return rooted && p == path
}

func nonZeroEdge(a, b *ssa.BasicBlock, path string, root ssa.Value) bool {
	v, isZero, ok := zeroTest(a, b)
	if !ok || isZero {
		return false
	}
	p, rooted := loadPathBelow(v, root)
	return rooted && p == path
}

// constLeaves collects the numeric constants a value is computed from, the library calls on the
// way, and whether it reads root.path itself (helper form "valueOrDefault(conf.X, def)").
func constLeaves(w *World, v ssa.Value, path string, root ssa.Value, depth int) (consts []int64, calls map[string]bool, readsSelf bool) {
	calls = map[string]bool{}
	var walk func(v ssa.Value, d int)
	seen := map[ssa.Value]bool{}
	walk = func(v ssa.Value, d int) {
		if v == nil || seen[v] || d > 12 {
			return
		}
		seen[v] = true
		switch x := v.(type) {
		case *ssa.Const:
			if x.Value != nil && x.Value.Kind() == constant.Int {
				k, _ := constant.Int64Val(x.Value)
				consts = append(consts, k)
			}
		case *ssa.Convert:
			walk(x.X, d+1)
		case *ssa.ChangeType:
			walk(x.X, d+1)
		case *ssa.Phi:
			for _, e := range x.Edges {
				walk(e, d+1)
			}
		case *ssa.BinOp:
			walk(x.X, d+1)
			walk(x.Y, d+1)
		case *ssa.UnOp:
			if p, rooted := loadPathBelow(x, root); rooted && p == path {
				readsSelf = true
			}
		case *ssa.Call:
			calls[calleeName(x)] = true
			for _, a := range x.Call.Args {
				walk(a, d+1)
			}
			if g := staticCallee(x); g != nil && w.isRepoFunc(g) {
				// constants inside a repo helper count as well
				for _, ret := range returnsOf(g) {
					for i := range ret.Results {
						inner(w, res(ret, i), &consts, calls, 0)
					}
				}
			}
		}
	}
	walk(v, depth)
	return consts, calls, readsSelf
}

func inner(w *World, v ssa.Value, consts *[]int64, calls map[string]bool, d int) {
	if d > 8 {
		return
	}
	switch x := v.(type) {
	case *ssa.Const:
		if x.Value != nil && x.Value.Kind() == constant.Int {
			k, _ := constant.Int64Val(x.Value)
			*consts = append(*consts, k)
		}
	case *ssa.Convert:
		inner(w, x.X, consts, calls, d+1)
	case *ssa.Phi:
		for _, e := range x.Edges {
			inner(w, e, consts, calls, d+1)
		}
	case *ssa.Call:
		calls[calleeName(x)] = true
		for _, a := range x.Call.Args {
			inner(w, a, consts, calls, d+1)
		}
	}
}

// helperDefaultShape: v is g(conf.path, …); every return of g either hands back the parameter
// that carries conf.path on a path where it is not zero, or something else on a path where it is.
func helperDefaultShape(w *World, v ssa.Value, path string, root ssa.Value) (bool, string) {
	c, ok := v.(*ssa.Call)
	if !ok {
		return false, "the value mixes the field and a default in a form the rule does not know"
	}
	g := staticCallee(c)
	if g == nil || !w.isRepoFunc(g) {
		return false, "the default is chosen by a function outside the repository"
	}
	pi := -1
	for i, a := range c.Call.Args {
		if p, rooted := loadPathBelow(a, root); rooted && p == path {
			pi = i
		}
	}
	if pi < 0 || pi >= len(g.Params) {
		return false, "the helper does not receive the field"
	}
	param := g.Params[pi]
	bad := ""
	n := 0
	if !enumPaths(g, 1, 2000, func(p *Path) {
		ret, isRet := p.last().(*ssa.Return)
		if !isRet || bad != "" {
			return
		}
		atoms, feasible := pathAtoms(p)
		if !feasible {
			return
		}
		n++
		isZero := ""
		for _, a := range atoms {
			if a.Op != token.EQL && a.Op != token.NEQ {
				continue
			}
			var other ssa.Value
			if a.X == ssa.Value(param) {
				other = a.Y
			} else if a.Y == ssa.Value(param) {
				other = a.X
			} else {
				continue
			}
			if isZeroConst(other) {
				isZero = tf((a.Op == token.EQL) == a.Truth)
			}
		}
		rv := resolveAlongPath(p, res(ret, 0))
		switch {
		case rv == ssa.Value(param) && isZero != "F":
			bad = "helper " + w.FuncName(g) + " returns the configured value on a path where it is (or may be) missing"
		case rv != ssa.Value(param) && isZero != "T":
			bad = "helper " + w.FuncName(g) + " replaces a configured value by the default"
		}
	}) {
		return false, "too many paths in helper"
	}
	if bad != "" {
		return false, bad
	}
	return n > 0, fmt.Sprintf("helper %s: %d paths, default only for the zero value", w.FuncName(g), n)
}

// validatorFacts derives which (family, field, cond) facts the nil return of validateConf implies.
func validatorFacts(w *World, r *Report, val *ssa.Function) map[confFact]bool {
	facts := map[confFact]bool{}
	var nilRets []*ssa.Return
	for _, ret := range returnsOf(val) {
		if isNilConst(res(ret, 0)) {
			nilRets = append(nilRets, ret)
		}
	}
	if len(nilRets) == 0 {
		brokenf("C18", "R18.3", "validateConf has no nil return")
	}
	isNilRet := func(i ssa.Instruction) bool {
		for _, rr := range nilRets {
			if i == ssa.Instruction(rr) {
				return true
			}
		}
		return false
	}
	// boolean conditions over Conf fields that appear in the function
	conds := map[string]bool{"": true}
	for _, b := range val.Blocks {
		if len(b.Succs) == 2 {
			if v, _, ok := boolEdge(b, b.Succs[0]); ok {
				if s := symOf(v).String(); strings.HasPrefix(s, "Conf.") && !strings.ContainsAny(s, "(#[") {
					conds[s] = true
					conds["!"+s] = true
				}
			}
		}
	}
	refutes := func(cond string) edgePred {
		return func(a, b *ssa.BasicBlock) bool {
			if cond == "" {
				return false
			}
			v, truth, ok := boolEdge(a, b)
			if !ok {
				return false
			}
			s := symOf(v).String()
			if strings.HasPrefix(cond, "!") {
				return s == cond[1:] && truth
			}
			return s == cond && !truth
		}
	}
	// under cond, every path to the nil return takes an edge accepted by est
	implied := func(cond string, est edgePred) bool {
		ref := refutes(cond)
		return reach(val, nil, isNilRet, nil, func(a, b *ssa.BasicBlock) bool { return ref(a, b) || est(a, b) }) == nil
	}
	type parseSite struct {
		call   *ssa.Call
		family string
		field  string
	}
	var sites []parseSite
	allInstrs(val, func(i ssa.Instruction) {
		c, ok := i.(*ssa.Call)
		if !ok || len(c.Call.Args) == 0 {
			return
		}
		fam := ""
		switch calleeName(c) {
		case "time.ParseDuration":
			fam = "duration"
		case "net.ParseCIDR":
			fam = "cidr"
		case "net.ParseIP":
			fam = "ip"
		}
		if fam == "" {
			return
		}
		sites = append(sites, parseSite{c, fam, symOf(c.Call.Args[0]).String()})
	})
	r.floor("R18.3 parse sites in validateConf", len(sites), 3)
	for cond := range conds {
		for _, s := range sites {
			s := s
			if s.family == "ip" {
				continue
			}
			ev := errResult(s.call)
			if ev == nil {
				continue
			}
			est := func(a, b *ssa.BasicBlock) bool {
				return nilnessEdge(a, b, func(x ssa.Value) bool { return x == ev }, true)
			}
			if implied(cond, est) {
				facts[confFact{s.family, s.field, cond}] = true
			}
		}
		// scalar tests
		for _, fld := range []string{"Conf.ReadTimeout", "Conf.MaxReqRetries"} {
			fld := fld
			if implied(cond, func(a, b *ssa.BasicBlock) bool {
				x, op, y, ok := edgeFact(a, b)
				return ok && op == token.NEQ && symOf(x).String() == fld && isZeroConst(y)
			}) {
				facts[confFact{"nonzero", fld, cond}] = true
			}
		}
		if implied(cond, func(a, b *ssa.BasicBlock) bool {
			x, op, y, ok := edgeFact(a, b)
			return ok && op == token.EQL && symOf(x).String() == "Conf.Mode" && isZeroConst(y)
		}) {
			facts[confFact{"empty", "Conf.Mode", cond}] = true
		}
		if implied(cond, func(a, b *ssa.BasicBlock) bool {
			v, truth, ok := boolEdge(a, b)
			if !ok || !truth {
				return false
			}
			ex, isEx := v.(*ssa.Extract)
			if !isEx {
				return false
			}
			lk, isLk := ex.Tuple.(*ssa.Lookup)
			return isLk && symOf(lk.Index).String() == "Conf.Mode" && isLiteralMap(lk.X)
		}) || implied(cond, func(a, b *ssa.BasicBlock) bool {
			// the same membership test written as a switch: conf.Mode == "<literal>"
			x, op, y, ok := edgeFact(a, b)
			if !ok || op != token.EQL {
				return false
			}
			if _, isK := constString(x); isK {
				x, y = y, x
			}
			lit, isK := constString(y)
			return isK && lit != "" && symOf(x).String() == "Conf.Mode"
		}) {
			facts[confFact{"member", "Conf.Mode", cond}] = true
		}
	}
	// peers: a full loop whose every iteration parses the element and only continues on non-nil
	for _, lp := range rangeLoopsOver(val, "Peers") {
		hdr, body := lp[0], lp[1]
		for _, s := range sites {
			if s.family != "ip" || !strings.HasSuffix(s.field, "Peers[]") {
				continue
			}
			s := s
			every := everyIteration(val, body, hdr, func(i ssa.Instruction) bool { return i == ssa.Instruction(s.call) })
			// from the call, the loop header is reachable only through the non-nil edge
			back := reach(val, s.call, func(i ssa.Instruction) bool { return i.Block() == hdr }, nil, func(a, b *ssa.BasicBlock) bool {
				return nilnessEdge(a, b, func(x ssa.Value) bool { return x == ssa.Value(s.call) }, false)
			})
			// the loop is on every path to the nil return and covers the whole list
			onPath := reach(val, nil, isNilRet, func(i ssa.Instruction) bool { return i.Block() == hdr }, nil) == nil
			full := false
			if ifi := blockIf(hdr); ifi != nil {
				if bo, ok := ifi.Cond.(*ssa.BinOp); ok {
					full = fullRangeIndex(bo.X, map[ssa.Value]bool{})
				}
			}
			if every && back == nil && onPath && full {
				facts[confFact{"ip-each", "Conf.CPIface.Peers", ""}] = true
			}
		}
	}
	return facts
}

// isLiteralMap: a map made in this function and filled with constant keys only.
func isLiteralMap(v ssa.Value) bool {
	if _, ok := v.(*ssa.MakeMap); ok {
		return true
	}
	// a package-level table (ruleC18Modes checks that only its initialiser writes it)
	if u, ok := v.(*ssa.UnOp); ok && u.Op == token.MUL {
		_, isG := u.X.(*ssa.Global)
		return isG
	}
	return false
}

// ruleC18Modes: the literal mode set against the BESS port script.
func ruleC18Modes(w *World, r *Report, val *ssa.Function) {
	goModes, g, init, nonLit := modeKeys(w, val)
	for _, j := range nonLit {
		r.bad("R18.3", w.FuncName(val), "the mode table "+g.Name()+" holds literal keys", w.Pos(j.Pos()), "a key of the table is not a string literal")
	}
	if g != nil {
		for f := range w.allFuncs() {
			if f == init {
				continue
			}
			allInstrs(f, func(j ssa.Instruction) {
				switch x := j.(type) {
				case *ssa.Store:
					if x.Addr == ssa.Value(g) {
						r.bad("R18.3", w.FuncName(f), "the mode table "+g.Name()+" is fixed at start-up", w.Pos(x.Pos()), "the table is replaced at run time")
					}
				case *ssa.MapUpdate:
					if u, ok := x.Map.(*ssa.UnOp); ok && u.X == ssa.Value(g) {
						r.bad("R18.3", w.FuncName(f), "the mode table "+g.Name()+" is fixed at start-up", w.Pos(x.Pos()), "the table is written at run time")
					}
				}
			})
		}
	}
	sort.Strings(goModes)
	r.floor("R18.3 literal modes", len(goModes), 3)
	src, err := os.ReadFile(filepath.Join(w.Repo, "conf", "ports.py"))
	if err != nil {
		brokenf("C18", "R18.3", "conf/ports.py: %v", err)
	}
	m := regexp.MustCompile(`conf_mode not in \[([^\]]*)\]`).FindStringSubmatch(string(src))
	if m == nil {
		brokenf("C18", "R18.3", "mode list not found in conf/ports.py")
	}
	py := map[string]bool{}
	for _, q := range regexp.MustCompile(`"([a-z_]+)"`).FindAllStringSubmatch(m[1], -1) {
		py[q[1]] = true
	}
	for _, gm := range goModes {
		r.check(py[gm], "R18.3", w.FuncName(val), "accepted mode '"+gm+"' is a mode the BESS port script supports", "conf/ports.py", "listed", "validateConf accepts mode '"+gm+"' which conf/ports.py rejects")
	}
}

// modeKeys: the keys of the table validateConf looks conf.Mode up in — a map literal in the function or a
// package-level table filled by the package initialiser (then table/init are set).
func modeKeys(w *World, val *ssa.Function) (keys []string, table *ssa.Global, init *ssa.Function, nonLiteral []ssa.Instruction) {
	allInstrs(val, func(i ssa.Instruction) {
		if mu, ok := i.(*ssa.MapUpdate); ok {
			if s, isStr := constString(mu.Key); isStr {
				keys = append(keys, s)
			}
		}
	})
	allInstrs(val, func(i ssa.Instruction) {
		lk, ok := i.(*ssa.Lookup)
		if !ok || !strings.HasSuffix(symOf(lk.Index).String(), ".Mode") {
			return
		}
		ld, ok := lk.X.(*ssa.UnOp)
		if !ok {
			return
		}
		g, ok := ld.X.(*ssa.Global)
		if !ok {
			return
		}
		table, init = g, g.Pkg.Func("init")
		var mm ssa.Value
		allInstrs(init, func(j ssa.Instruction) {
			if st, ok := j.(*ssa.Store); ok && st.Addr == ssa.Value(g) {
				mm = st.Val
			}
		})
		allInstrs(init, func(j ssa.Instruction) {
			if mu, ok := j.(*ssa.MapUpdate); ok && mm != nil && mu.Map == mm {
				if s, isStr := constString(mu.Key); isStr {
					keys = append(keys, s)
				} else {
					nonLiteral = append(nonLiteral, j)
				}
			}
		})
	})
	if len(keys) == 0 && table == nil {
		// no table: the literals conf.Mode is compared with for equality (a switch over the mode)
		seen := map[string]bool{}
		allInstrs(val, func(i ssa.Instruction) {
			bo, ok := i.(*ssa.BinOp)
			if !ok || bo.Op != token.EQL {
				return
			}
			x, y := bo.X, bo.Y
			if _, isK := constString(x); isK {
				x, y = y, x
			}
			lit, isK := constString(y)
			if isK && lit != "" && strings.HasSuffix(symOf(x).String(), ".Mode") && !seen[lit] {
				seen[lit] = true
				keys = append(keys, lit)
			}
		})
	}
	sort.Strings(keys)
	return
}

// ruleC18Consumers: every process-ending parse of a Conf field is covered by a validator fact.
func ruleC18Consumers(w *World, r *Report, facts map[confFact]bool) {
	const P = "C18"
	newUPF := w.Fn(P, "pfcpiface.NewUPF")
	up4Set := w.Fn(P, "pfcpiface.(*UP4).SetUpfInfo")
	bessSet := w.Fn(P, "pfcpiface.(*bess).SetUpfInfo")
	must := w.Fn(P, "pfcpiface.MustParseStrIP")
	newPool := w.Fn(P, "pfcpiface.NewIPPool")
	iface := w.Fn(P, "pfcpiface.NewPFCPIface")
	// MustParseStrIP is a CIDR parse that ends the process on failure
	{
		isCIDR, fatal := false, false
		allInstrs(must, func(i ssa.Instruction) {
			if c, ok := i.(*ssa.Call); ok {
				if calleeName(c) == "net.ParseCIDR" && c.Call.Args[0] == ssa.Value(must.Params[0]) {
					isCIDR = true
				}
				if strings.Contains(calleeName(c), "Fatal") {
					fatal = true
				}
			}
		})
		r.check(isCIDR && fatal, "R18.4", w.FuncName(must), "MustParseStrIP = ParseCIDR or die", w.Pos(must.Pos()), "shape", "MustParseStrIP changed shape; the consumer table no longer describes it")
		isCIDR = false
		allInstrs(newPool, func(i ssa.Instruction) {
			if c, ok := i.(*ssa.Call); ok && calleeName(c) == "net.ParseCIDR" && c.Call.Args[0] == ssa.Value(newPool.Params[0]) {
				isCIDR = true
			}
		})
		r.check(isCIDR, "R18.4", w.FuncName(newPool), "NewIPPool parses its argument as a CIDR", w.Pos(newPool.Pos()), "shape", "NewIPPool no longer parses a CIDR")
	}
	// the UP4 datapath exists only under EnableP4rt
	up4Only := false
	allInstrs(iface, func(i ssa.Instruction) {
		a, ok := i.(*ssa.Alloc)
		if !ok || rootTypeName(a.Type()) != "UP4" {
			return
		}
		up4Only = onlyVia(iface, a, func(x, y *ssa.BasicBlock) bool {
			v, truth, ok := boolEdge(x, y)
			return ok && truth && strings.HasSuffix(symOf(v).String(), "Conf.EnableP4rt")
		})
	})
	r.check(up4Only, "R18.4", w.FuncName(iface), "the UP4 datapath is constructed only when enable_p4rt", w.Pos(iface.Pos()), "under EnableP4rt", "the UP4 datapath can be constructed without enable_p4rt (its consumers rely on the P4 branch of the validator)")
	// other constructors of UP4 outside tests
	for f := range w.allFuncs() {
		if f == iface {
			continue
		}
		allInstrs(f, func(i ssa.Instruction) {
			if a, ok := i.(*ssa.Alloc); ok && a.Heap && rootTypeName(a.Type()) == "UP4" && derefIsNamed(a.Type(), "UP4") {
				r.bad("R18.4", w.FuncName(f), "single construction site of the UP4 datapath", w.Pos(a.Pos()), "UP4 is also constructed in "+w.FuncName(f))
			}
		})
	}
	n := 0
	scan := func(f *ssa.Function, baseCond []string) {
		fn := w.FuncName(f)
		allInstrs(f, func(i ssa.Instruction) {
			c, ok := i.(*ssa.Call)
			if !ok || len(c.Call.Args) == 0 {
				return
			}
			fam := ""
			fatalOnErr := false
			callee := staticCallee(c)
			switch {
			case calleeName(c) == "time.ParseDuration":
				fam = "duration"
			case callee == must:
				fam, fatalOnErr = "cidr", true
			case callee == newPool:
				fam = "cidr"
			case calleeName(c) == "net.ParseCIDR":
				fam = "cidr"
			case calleeName(c) == "net.ParseIP":
				fam = "ip"
			default:
				return
			}
			arg := symOf(c.Call.Args[0]).String()
			if !strings.HasPrefix(arg, "Conf.") {
				return // not a configuration value
			}
			if !fatalOnErr {
				// does a failure end the process?
				ev := errResult(c)
				if ev == nil {
					return
				}
				for _, b := range f.Blocks {
					for _, s := range b.Succs {
						if nilnessEdge(b, s, func(x ssa.Value) bool { return x == ev }, false) {
							if reach(f, firstInstr(s), func(j ssa.Instruction) bool {
								cc, ok := j.(*ssa.Call)
								return ok && strings.Contains(calleeName(cc), "Fatal")
							}, nil, func(a2, b2 *ssa.BasicBlock) bool {
								return nilnessEdge(a2, b2, func(x ssa.Value) bool { return x == ev }, true)
							}) != nil || blockHasFatal(s) {
								fatalOnErr = true
							}
						}
					}
				}
			}
			if !fatalOnErr {
				return
			}
			n++
			// the consumer's own governing conditions (boolean Conf fields that dominate the call)
			conds := append([]string{""}, baseCond...)
			for _, b := range f.Blocks {
				if len(b.Succs) != 2 {
					continue
				}
				for _, s := range b.Succs {
					v, truth, ok := boolEdge(b, s)
					if !ok {
						continue
					}
					name := symOf(v).String()
					if !strings.HasPrefix(name, "Conf.") || strings.ContainsAny(name, "(#[") {
						continue
					}
					if onlyVia(f, c, func(a2, b2 *ssa.BasicBlock) bool { return a2 == b && b2 == s }) {
						conds = append(conds, ifelse(truth, "", "!")+name)
					}
				}
			}
			covered := false
			for _, cd := range conds {
				if facts[confFact{fam, arg, cd}] {
					covered = true
				}
			}
			r.check(covered, "R18.4", fn, "process-ending "+fam+" parse of "+arg+" is validated by the loader", w.Pos(c.Pos()), "validator fact under "+strings.Join(conds[1:], ","), fmt.Sprintf("%s(%s) ends the process on failure under conditions {%s}, but validateConf does not establish it under any of them: a configuration accepted by the loader kills the agent", fam, arg, strings.Join(conds[1:], ",")))
		})
	}
	scan(newUPF, nil)
	scan(up4Set, []string{"Conf.EnableP4rt"})
	scan(bessSet, []string{"!Conf.EnableP4rt"})
	r.floor("R18.4 process-ending consumers", n, 5)
}

func blockHasFatal(b *ssa.BasicBlock) bool {
	for _, i := range b.Instrs {
		if c, ok := i.(*ssa.Call); ok && strings.Contains(calleeName(c), "Fatal") {
			return true
		}
	}
	return false
}

func derefIsNamed(t types.Type, name string) bool {
	if p, ok := t.Underlying().(*types.Pointer); ok {
		if n, ok := p.Elem().(*types.Named); ok {
			return n.Obj().Name() == name
		}
	}
	return false
}

// ruleC18Pattern: structure of the comment pattern.
func ruleC18Pattern(w *World, r *Report, rm *ssa.Function) {
	fn := w.FuncName(rm)
	// the pattern: the constant handed to regexp.MustCompile by removeComments or by the
	// initialiser of the package-level variable it uses
	var pats []string
	var where token.Pos
	collect := func(f *ssa.Function) {
		allInstrs(f, func(i ssa.Instruction) {
			if c, ok := i.(*ssa.Call); ok && (calleeName(c) == "regexp.MustCompile" || calleeName(c) == "regexp.Compile") {
				if s, isStr := constString(c.Call.Args[0]); isStr {
					// only the one whose result reaches ReplaceAllString in removeComments
					pats = append(pats, s)
					where = c.Pos()
				}
			}
		})
	}
	collect(rm)
	if len(pats) == 0 {
		// package-level variable
		allInstrs(rm, func(i ssa.Instruction) {
			if u, ok := i.(*ssa.UnOp); ok {
				if g, isG := u.X.(*ssa.Global); isG {
					if init := g.Pkg.Func("init"); init != nil {
						allInstrs(init, func(j ssa.Instruction) {
							if st, ok := j.(*ssa.Store); ok && st.Addr == ssa.Value(g) {
								if c, ok := st.Val.(*ssa.Call); ok && calleeName(c) == "regexp.MustCompile" {
									if s, isStr := constString(c.Call.Args[0]); isStr {
										pats = append(pats, s)
										where = c.Pos()
									}
								}
							}
						})
					}
				}
			}
		})
	}
	if len(pats) != 1 {
		r.bad("R18.6", fn, "one constant comment pattern", w.Pos(rm.Pos()), fmt.Sprintf("%d constant patterns found", len(pats)))
		return
	}
	pat := pats[0]
	re, err := syntax.Parse(pat, syntax.Perl)
	r.check(err == nil, "R18.5", fn, "the comment pattern compiles (MustCompile cannot panic)", w.Pos(where), "regexp/syntax accepts it", fmt.Sprintf("pattern %q does not compile: %v", pat, err))
	if err != nil {
		return
	}
	// replacement is the empty string, on the whole input
	allInstrs(rm, func(i ssa.Instruction) {
		if c, ok := i.(*ssa.Call); ok && strings.HasSuffix(calleeName(c), "Regexp).ReplaceAllString") {
			s, isStr := constString(c.Call.Args[2])
			r.check(isStr && s == "" && c.Call.Args[1] == ssa.Value(rm.Params[0]), "R18.6", fn, "comments are replaced by nothing in the given text", w.Pos(c.Pos()), `ReplaceAllString(jsonc, "")`, "comments are replaced by "+fmt.Sprintf("%q", s))
		}
	})
	// regexp/syntax factors common prefixes ("/(?:/.*$|\*.*?\*/)"): expand back into sequences
	var line, block []*syntax.Regexp
	for _, seq := range expandAlternatives(re) {
		if len(seq) < 2 || seq[0].Op != syntax.OpLiteral {
			r.bad("R18.6", fn, "alternatives are comment shapes", w.Pos(where), "an alternative of the pattern is not 'marker body end'")
			continue
		}
		switch string(seq[0].Rune) {
		case "//":
			line = seq
		case "/*":
			block = seq
		default:
			r.bad("R18.6", fn, "alternatives start with a comment marker", w.Pos(where), "an alternative starts with "+string(seq[0].Rune))
		}
	}
	starOK := func(s *syntax.Regexp, lazy bool) (bool, string) {
		if s.Op != syntax.OpStar {
			return false, "body is not '.*'"
		}
		if s.Sub[0].Op != syntax.OpAnyCharNotNL {
			return false, "body can cross a newline"
		}
		if lazy && s.Flags&syntax.NonGreedy == 0 {
			return false, "body is greedy: two block comments on one line swallow the JSON between them"
		}
		return true, ""
	}
	if line == nil {
		r.bad("R18.6", fn, "line comments are recognised", w.Pos(where), "no '//' alternative")
	} else {
		okS, why := starOK(line[1], false)
		endOK := len(line) == 3 && (line[2].Op == syntax.OpEndLine || line[2].Op == syntax.OpEndText)
		if len(line) == 2 {
			endOK = true // '.*' without anchor stops at the newline as well
		}
		r.check(okS && endOK, "R18.6", fn, "line comment: '//' up to the end of the line, never beyond", w.Pos(where), seqString(line), "line comment alternative "+seqString(line)+": "+why)
	}
	if block == nil {
		r.bad("R18.6", fn, "single-line block comments are recognised", w.Pos(where), "no '/*' alternative")
	} else {
		okS, why := false, "shape"
		if len(block) == 3 && block[2].Op == syntax.OpLiteral && string(block[2].Rune) == "*/" {
			okS, why = starOK(block[1], true)
		}
		r.check(okS, "R18.6", fn, "block comment: '/*' lazy body '*/' on one line", w.Pos(where), seqString(block), "block comment alternative "+seqString(block)+": "+why)
	}
}

// expandAlternatives flattens concatenations and alternations into plain sequences and merges
// adjacent literals.
func expandAlternatives(re *syntax.Regexp) [][]*syntax.Regexp {
	var seqs [][]*syntax.Regexp
	switch re.Op {
	case syntax.OpAlternate:
		for _, s := range re.Sub {
			seqs = append(seqs, expandAlternatives(s)...)
		}
	case syntax.OpCapture:
		return expandAlternatives(re.Sub[0])
	case syntax.OpConcat:
		seqs = [][]*syntax.Regexp{{}}
		for _, s := range re.Sub {
			parts := expandAlternatives(s)
			var next [][]*syntax.Regexp
			for _, pre := range seqs {
				for _, p := range parts {
					n := append(append([]*syntax.Regexp{}, pre...), p...)
					next = append(next, n)
				}
			}
			seqs = next
		}
	default:
		seqs = [][]*syntax.Regexp{{re}}
	}
	// merge literals
	for i, s := range seqs {
		var m []*syntax.Regexp
		for _, x := range s {
			if x.Op == syntax.OpLiteral && len(m) > 0 && m[len(m)-1].Op == syntax.OpLiteral {
				prev := m[len(m)-1]
				m[len(m)-1] = &syntax.Regexp{Op: syntax.OpLiteral, Rune: append(append([]rune{}, prev.Rune...), x.Rune...), Flags: prev.Flags}
				continue
			}
			m = append(m, x)
		}
		seqs[i] = m
	}
	return seqs
}

func seqString(s []*syntax.Regexp) string {
	var b strings.Builder
	for _, x := range s {
		b.WriteString(x.String())
	}
	return b.String()
}

// ---- R18.7 samples

type jsoncScan struct {
	stripped   string
	badComment []string // comments of unsupported shape
	markerStr  []string // strings containing a comment marker
}

// scanJSONC is a string-aware JSONC tokenizer written for the checker (not the repo's regex).
func scanJSONC(src string) jsoncScan {
	var out strings.Builder
	var sc jsoncScan
	line := 1
	for i := 0; i < len(src); {
		c := src[i]
		switch {
		case c == '"':
			j := i + 1
			for j < len(src) && src[j] != '"' {
				if src[j] == '\\' {
					j++
				}
				j++
			}
			if j >= len(src) {
				j = len(src) - 1
			}
			s := src[i : j+1]
			if strings.Contains(s, "//") || strings.Contains(s, "/*") {
				sc.markerStr = append(sc.markerStr, fmt.Sprintf("line %d: %s", line, s))
			}
			out.WriteString(s)
			i = j + 1
		case c == '/' && i+1 < len(src) && src[i+1] == '/':
			for i < len(src) && src[i] != '\n' {
				i++
			}
		case c == '/' && i+1 < len(src) && src[i+1] == '*':
			j := strings.Index(src[i+2:], "*/")
			if j < 0 {
				sc.badComment = append(sc.badComment, fmt.Sprintf("line %d: unterminated block comment", line))
				i = len(src)
				break
			}
			body := src[i : i+2+j+2]
			if strings.Contains(body, "\n") {
				sc.badComment = append(sc.badComment, fmt.Sprintf("line %d: multi-line block comment", line))
				line += strings.Count(body, "\n")
			}
			i += len(body)
		default:
			if c == '\n' {
				line++
			}
			out.WriteByte(c)
			i++
		}
	}
	sc.stripped = out.String()
	return sc
}

func ruleC18Samples(w *World, r *Report, val *ssa.Function) {
	const P = "C18"
	samples := []string{"conf/upf.jsonc", "ptf/config/upf.jsonc"}
	confT := w.NamedType(P, pfcpPkg, "Conf")
	var goModes = map[string]bool{}
	{
		ks, _, _, _ := modeKeys(w, val)
		for _, k := range ks {
			goModes[k] = true
		}
	}
	n := 0
	for _, rel := range samples {
		raw, err := os.ReadFile(filepath.Join(w.Repo, rel))
		if err != nil {
			brokenf(P, "R18.7", "%s: %v", rel, err)
		}
		n++
		sc := scanJSONC(string(raw))
		r.check(len(sc.badComment) == 0, "R18.7", rel, "only line comments and single-line block comments", rel, "all comments supported", "unsupported comment shape: "+strings.Join(sc.badComment, "; "))
		r.check(len(sc.markerStr) == 0, "R18.7", rel, "no string value contains a comment marker", rel, "none", "a string contains a comment marker and would be damaged by the loader: "+strings.Join(sc.markerStr, "; "))
		var doc map[string]interface{}
		if err := json.Unmarshal([]byte(sc.stripped), &doc); err != nil {
			r.bad("R18.7", rel, "the sample is JSON once comments are removed", rel, "not JSON after comment removal: "+err.Error())
			continue
		}
		r.ok("R18.7", rel, "the sample is JSON once comments are removed", rel, fmt.Sprintf("%d top-level keys", len(doc)))
		mism := kindMismatches(confT.Underlying().(*types.Struct), doc, "")
		r.check(len(mism) == 0, "R18.7", rel, "values of Go-known keys have the JSON kind of their field", rel, "kinds agree", "kind mismatch (json.Unmarshal would fail): "+strings.Join(mism, "; "))
		// validator-relevant literals
		p4, _ := doc["enable_p4rt"].(bool)
		mode, _ := doc["mode"].(string)
		if p4 {
			r.check(mode == "", "R18.7", rel, "no mode in a P4 sample", rel, "absent", "P4 sample sets mode "+mode)
		} else {
			r.check(goModes[mode], "R18.7", rel, "the sample's mode is accepted by validateConf", rel, mode, "sample mode '"+mode+"' is not in validateConf's set")
		}
		for _, k := range []string{"resp_timeout", "heart_beat_interval"} {
			if s, ok := doc[k].(string); ok && s != "" {
				_, err := time.ParseDuration(s)
				r.check(err == nil, "R18.7", rel, k+" is a duration literal", rel, s, k+" = "+s+" is not a duration")
			}
		}
	}
	r.floor("R18.7 samples", n, 2)
}

// kindMismatches compares decoded JSON with the struct's json tags (unknown keys are ignored by
// encoding/json and by this rule).
func kindMismatches(st *types.Struct, doc map[string]interface{}, prefix string) []string {
	var out []string
	for i := 0; i < st.NumFields(); i++ {
		tag := jsonTag(st.Tag(i))
		if tag == "" {
			continue
		}
		v, present := doc[tag]
		if !present || v == nil {
			continue
		}
		ft := st.Field(i).Type()
		want := jsonKindOf(ft)
		got := ""
		switch v.(type) {
		case string:
			got = "string"
		case float64:
			got = "number"
		case bool:
			got = "bool"
		case map[string]interface{}:
			got = "object"
		case []interface{}:
			got = "array"
		}
		if want != "" && got != want {
			out = append(out, fmt.Sprintf("%s%s is %s, field wants %s", prefix, tag, got, want))
			continue
		}
		if sub, ok := ft.Underlying().(*types.Struct); ok {
			if m, isObj := v.(map[string]interface{}); isObj {
				out = append(out, kindMismatches(sub, m, prefix+tag+".")...)
			}
		}
		if sl, ok := ft.Underlying().(*types.Slice); ok {
			if sub, ok := sl.Elem().Underlying().(*types.Struct); ok {
				if arr, isArr := v.([]interface{}); isArr {
					for k, e := range arr {
						if m, isObj := e.(map[string]interface{}); isObj {
							out = append(out, kindMismatches(sub, m, fmt.Sprintf("%s%s[%d].", prefix, tag, k))...)
						}
					}
				}
			}
		}
		if b, ok := ft.Underlying().(*types.Basic); ok && b.Info()&types.IsUnsigned != 0 {
			if f, isNum := v.(float64); isNum {
				bits, _ := goWidth(ft)
				if f < 0 || f != float64(uint64(f)) || (bits < 64 && f >= float64(uint64(1)<<uint(bits))) {
					out = append(out, fmt.Sprintf("%s%s = %v does not fit %s", prefix, tag, f, ft.String()))
				}
			}
		}
	}
	return out
}

func jsonTag(tag string) string {
	const k = `json:"`
	i := strings.Index(tag, k)
	if i < 0 {
		return ""
	}
	rest := tag[i+len(k):]
	j := strings.IndexAny(rest, `,"`)
	if j < 0 {
		return ""
	}
	return rest[:j]
}

func jsonKindOf(t types.Type) string {
	if n, ok := t.(*types.Named); ok {
		switch n.Obj().Pkg().Path() + "." + n.Obj().Name() {
		case "go.uber.org/zap/zapcore.Level", "net.IP":
			return "string" // TextUnmarshaler
		}
	}
	switch u := t.Underlying().(type) {
	case *types.Basic:
		switch {
		case u.Info()&types.IsString != 0:
			return "string"
		case u.Info()&types.IsBoolean != 0:
			return "bool"
		case u.Info()&types.IsNumeric != 0:
			return "number"
		}
	case *types.Struct, *types.Map:
		return "object"
	case *types.Slice:
		return "array"
	}
	return ""
}

// ruleC18CustomDecoders (R18.8): a default that is stored before decoding survives decoding only if no
// decoder replaces the enclosing struct wholesale. encoding/json fills fields in place; a custom
// UnmarshalJSON / UnmarshalText on a type between Conf and the defaulted field that assigns `*recv = …`
// from a fresh value throws the pre-set default away whenever the document mentions the enclosing object.
func ruleC18CustomDecoders(w *World, r *Report, pre map[string]bool) {
	const P = "C18"
	confT := w.NamedType(P, pfcpPkg, "Conf")
	// struct types on the way from Conf to a field with a pre-decode default
	type step struct {
		t    *types.Named
		path string
	}
	var onPath []step
	var walk func(t types.Type, path string, depth int)
	walk = func(t types.Type, path string, depth int) {
		if depth > 4 {
			return
		}
		nt := namedOf(t)
		if nt == nil {
			return
		}
		st, ok := nt.Underlying().(*types.Struct)
		if !ok {
			return
		}
		covers := false
		for p := range pre {
			if path == "" || strings.HasPrefix(p, path+".") || p == path {
				covers = true
			}
		}
		if !covers {
			return
		}
		onPath = append(onPath, step{nt, path})
		for i := 0; i < st.NumFields(); i++ {
			f := st.Field(i)
			sub := f.Name()
			if path != "" {
				sub = path + "." + sub
			}
			walk(f.Type(), sub, depth+1)
		}
	}
	walk(confT, "", 0)
	r.floor("R18.8 struct types above a pre-decode default", len(onPath), 2)
	for _, s := range onPath {
		found := false
		for _, name := range []string{"UnmarshalJSON", "UnmarshalText"} {
			ms := w.Prog.MethodSets.MethodSet(types.NewPointer(s.t))
			for i := 0; i < ms.Len(); i++ {
				if ms.At(i).Obj().Name() != name {
					continue
				}
				fn := w.Prog.MethodValue(ms.At(i))
				if fn == nil || fn.Blocks == nil || !w.isRepoFunc(fn) || len(fn.Params) == 0 {
					continue
				}
				found = true
				recv := fn.Params[0]
				allInstrs(fn, func(ins ssa.Instruction) {
					st, ok := ins.(*ssa.Store)
					if !ok || st.Addr != ssa.Value(recv) {
						return
					}
					// the stored value must start out as the receiver's current value
					keeps := derivesFromLoadOf(st.Val, recv, 0)
					r.check(keeps, "R18.8", w.FuncName(fn), "a custom decoder of "+s.t.Obj().Name()+" keeps what was set before decoding", w.Pos(st.Pos()), "the replacement starts from *receiver", "the decoder overwrites the whole "+s.t.Obj().Name()+" with a freshly decoded value: defaults stored before json.Unmarshal (below "+ifelse(s.path == "", "Conf", s.path)+") are lost whenever the document contains this object without the field")
				})
			}
		}
		if !found {
			r.ok("R18.8", "pfcpiface."+s.t.Obj().Name(), "no custom decoder replaces "+s.t.Obj().Name()+" (pre-decode defaults below it survive)", "-", "encoding/json fills the fields in place")
		}
	}
}

// derivesFromLoadOf: v is, or is built by conversions / field updates from, a load of *ptr.
func derivesFromLoadOf(v ssa.Value, ptr ssa.Value, depth int) bool {
	if depth > 8 {
		return false
	}
	switch x := v.(type) {
	case *ssa.UnOp:
		if x.Op == token.MUL {
			if x.X == ptr {
				return true
			}
			// load of a local cell: every store to the cell's root must derive from *ptr first
			if al, ok := rootAlloc(x.X); ok {
				okAll, n := true, 0
				for _, st := range storesTo(al) {
					n++
					if !derivesFromLoadOf(st.Val, ptr, depth+1) {
						okAll = false
					}
				}
				return okAll && n > 0
			}
		}
	case *ssa.ChangeType:
		return derivesFromLoadOf(x.X, ptr, depth+1)
	case *ssa.Convert:
		return derivesFromLoadOf(x.X, ptr, depth+1)
	case *ssa.Field:
		return derivesFromLoadOf(x.X, ptr, depth+1)
	case *ssa.Phi:
		for _, e := range x.Edges {
			if !derivesFromLoadOf(e, ptr, depth+1) {
				return false
			}
		}
		return len(x.Edges) > 0
	}
	return false
}

func rootAlloc(v ssa.Value) (*ssa.Alloc, bool) {
	for i := 0; i < 8; i++ {
		switch x := v.(type) {
		case *ssa.Alloc:
			return x, true
		case *ssa.FieldAddr:
			v = x.X
		case *ssa.IndexAddr:
			v = x.X
		default:
			return nil, false
		}
	}
	return nil, false
}
