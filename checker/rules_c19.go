package main

import (
	"fmt"
	"go/token"
	"go/types"
	"strings"

	"golang.org/x/tools/go/ssa"
)

func init() { rules["C19"] = ruleC19 }

// fieldStores collects, inside fn, every store to a field of struct type named typ
// (through any base): field name -> stored values.
func fieldStores(fn *ssa.Function, typ string) map[string][]*ssa.Store {
	out := map[string][]*ssa.Store{}
	allInstrs(fn, func(i ssa.Instruction) {
		st, ok := i.(*ssa.Store)
		if !ok {
			return
		}
		fa, ok := st.Addr.(*ssa.FieldAddr)
		if !ok {
			return
		}
		if rootTypeName(fa.X.Type()) != typ {
			return
		}
		if fv := fieldVar(fa); fv != nil {
			out[fv.Name()] = append(out[fv.Name()], st)
		}
	})
	return out
}

func isHTTPResponseWriter(t types.Type) bool {
	return typeName(t) == "net/http.ResponseWriter"
}

func ruleC19(w *World, r *Report) {
	r.Explanation = "R19.1 every CFG path through ConfigHandler.ServeHTTP emits exactly one HTTP response (path enumeration, response = call that reaches ResponseWriter.WriteHeader), with 201 only on the decoded PUT/POST path, 4xx on read/decode failure, 405 otherwise; " +
		"R19.2 the datapath-programming call is reachable only through the PUT/POST arms and only on paths where io.ReadAll's and json.Unmarshal's errors were established nil; " +
		"R19.3 calculateBitRates' unit→factor decision table (bps 1, Kbps 1e3, Gbps 1e9, Mbps/other 1e6) by constant-factor extraction per path, and field provenance from the posted document through SliceInfo into the BESS slice-meter arguments and the UP4 MeterConfig / slice-TC index."
	r.Explanation += " R19.6 P4rtcInfo.DefaultTC is written only before the file is decoded (0 is a legal class; a fill-in-when-zero afterwards changes the configured cell)."
	r.Explanation += " R19.7 Pir/Pburst of the UP4 slice meter are the converted values, the only constant allowed is MaxInt64; R19.1 resolves a status variable along each path."
	r.NotDecided = "arithmetic at the 63-bit edge; what BESS/UP4 do with the meter values"
	r.Assumptions = []string{"net/http calls ServeHTTP once per request", "encoding/json fills NetworkSlice per its struct tags (library behaviour)"}
	const P = "C19"
	serve := w.Fn(P, "pfcpiface.(*ConfigHandler).ServeHTTP")
	sendResp := w.Fn(P, "pfcpiface.sendHTTPResp")
	handle := w.Fn(P, "pfcpiface.handleSliceConfig")
	addSlice := w.Fn(P, "pfcpiface.(*upf).addSliceInfo")
	calc := w.Fn(P, "pfcpiface.calculateBitRates")
	cg := w.CG()
	sname := w.FuncName(serve)

	// --- which functions emit a response: reach an invoke of ResponseWriter.WriteHeader/Write
	emits := map[*ssa.Function]bool{}
	for _, f := range w.Funcs {
		allInstrs(f, func(i ssa.Instruction) {
			if c, ok := i.(ssa.CallInstruction); ok && c.Common().IsInvoke() && isHTTPResponseWriter(c.Common().Value.Type()) {
				if m := c.Common().Method.Name(); m == "WriteHeader" || m == "Write" {
					emits[f] = true
				}
			}
		})
	}
	var curPath *Path // set while a path of ServeHTTP is walked: a status kept in a variable is a φ at the join
	isResponse := func(i ssa.Instruction) (status int64, known bool, is bool) {
		c, ok := i.(ssa.CallInstruction)
		if !ok {
			return 0, false, false
		}
		cc := c.Common()
		if cc.IsInvoke() {
			if isHTTPResponseWriter(cc.Value.Type()) && (cc.Method.Name() == "WriteHeader" || cc.Method.Name() == "Write") {
				if cc.Method.Name() == "WriteHeader" {
					s, k := constInt(cc.Args[0])
					return s, k, true
				}
				return 200, true, true
			}
			return 0, false, false
		}
		callee := staticCallee(c)
		if callee == nil {
			return 0, false, false
		}
		if callee.Blocks == nil {
			// external helper taking the ResponseWriter (http.Error, http.NotFound, ...)
			for j, a := range cc.Args {
				if isHTTPResponseWriter(a.Type()) {
					if callee.Name() == "Error" && j == 0 && len(cc.Args) == 3 {
						s, k := constInt(cc.Args[2])
						return s, k, true
					}
					return 0, false, true
				}
			}
			return 0, false, false
		}
		reachEmit := false
		for f := range cg.Reachable([]*ssa.Function{callee}, func(e *Edge) bool { return e.Kind != "go" }) {
			if emits[f] {
				reachEmit = true
			}
		}
		if !reachEmit {
			return 0, false, false
		}
		if callee == sendResp && len(cc.Args) > 0 {
			s, k := constInt(curPath.resolve(cc.Args[0]))
			return s, k, true
		}
		return 0, false, true
	}

	// sendHTTPResp itself: WriteHeader(status) exactly once on every path, status = its parameter
	{
		n := 0
		okAll := true
		complete := enumPaths(sendResp, 2, 5000, func(p *Path) {
			cnt := 0
			p.instrs(func(i ssa.Instruction) {
				if c, ok := i.(ssa.CallInstruction); ok && c.Common().IsInvoke() && c.Common().Method.Name() == "WriteHeader" && isHTTPResponseWriter(c.Common().Value.Type()) {
					cnt++
					if c.Common().Args[0] != sendResp.Params[0] {
						okAll = false
					}
				}
			})
			n++
			if cnt != 1 {
				okAll = false
			}
		})
		if !complete {
			brokenf(P, "R19.1", "too many paths in sendHTTPResp")
		}
		r.check(okAll, "R19.1", w.FuncName(sendResp), "WriteHeader(status) once per path", w.Pos(sendResp.Pos()),
			fmt.Sprintf("%d paths, each calls WriteHeader(param status) exactly once", n), "sendHTTPResp does not call WriteHeader(status) exactly once on every path")
	}

	// --- the datapath-programming calls inside ServeHTTP
	reachesDatapath := func(i ssa.Instruction) bool {
		c, ok := i.(ssa.CallInstruction)
		if !ok {
			return false
		}
		return cg.siteReaches(c, func(f *ssa.Function) bool { return f == addSlice })
	}
	var dpCalls []ssa.Instruction
	allInstrs(serve, func(i ssa.Instruction) {
		if reachesDatapath(i) {
			dpCalls = append(dpCalls, i)
		}
	})
	r.floor("R19.2 datapath call sites in ServeHTTP", len(dpCalls), 1)
	_ = handle

	// --- decode calls and the method tests
	var readAll, unmarshal *ssa.Call
	allInstrs(serve, func(i ssa.Instruction) {
		if c, ok := i.(*ssa.Call); ok {
			switch calleeName(c) {
			case "io.ReadAll", "io/ioutil.ReadAll":
				readAll = c
			case "encoding/json.Unmarshal":
				unmarshal = c
			}
			if n := calleeName(c); strings.HasSuffix(n, ".Decode") && strings.Contains(n, "encoding/json") {
				unmarshal = c
			}
		}
	})
	if unmarshal == nil {
		brokenf(P, "R19.2", "no JSON decode call found in ServeHTTP")
	}
	// whole-document decoding: json.Unmarshal rejects trailing data; a streaming
	// Decoder.Decode accepts "{...} junk" unless the remainder is checked.
	{
		n := calleeName(unmarshal)
		whole := n == "encoding/json.Unmarshal"
		if !whole {
			// accept a Decoder only when More()/Token()/a second Decode is consulted afterwards
			allInstrs(serve, func(i ssa.Instruction) {
				if c, ok := i.(*ssa.Call); ok && c != unmarshal {
					if cn := calleeName(c); cn == "(*encoding/json.Decoder).More" || cn == "(*encoding/json.Decoder).Token" || cn == "(*encoding/json.Decoder).Decode" {
						whole = true
					}
				}
			})
		}
		r.check(whole, "R19.2", sname, "body decoded as one whole JSON document", w.Pos(unmarshal.Pos()), n, "the body is decoded with "+n+" without checking for trailing data: a malformed body whose prefix is a valid document is accepted")
		// the document is decoded into a value of this request: encoding/json leaves members the document
		// omits untouched, so a target that outlives the request mixes two documents (and races)
		if cc := unmarshal; cc != nil {
			tgt := cc.Call.Args[len(cc.Call.Args)-1]
			if mi, isMI := tgt.(*ssa.MakeInterface); isMI {
				tgt = mi.X
			}
			al, isAl := tgt.(*ssa.Alloc)
			r.check(isAl && al.Parent() == cc.Parent(), "R19.2", sname, "the document is decoded into a fresh per-request value", w.Pos(cc.Pos()), "local variable of the handler call", "the body is decoded into "+symOf(tgt).String()+", which outlives the request: members a later document omits (bitrate unit, burst sizes) keep the values of an earlier request, and concurrent requests share the target")
		}
	}
	isMethodLoad := func(v ssa.Value) bool {
		u, ok := v.(*ssa.UnOp)
		if !ok || u.Op != token.MUL {
			return false
		}
		fa, ok := u.X.(*ssa.FieldAddr)
		if !ok {
			return false
		}
		fv := fieldVar(fa)
		return fv != nil && fv.Name() == "Method" && rootTypeName(fa.X.Type()) == "Request"
	}
	// methodEdge: the edge a→b establishes r.Method == one of the accepted verbs
	methodEdge := func(a, b *ssa.BasicBlock) (string, bool) {
		x, op, y, ok := edgeFact(a, b)
		if !ok || op != token.EQL {
			return "", false
		}
		var other ssa.Value
		if isMethodLoad(x) {
			other = y
		} else if isMethodLoad(y) {
			other = x
		} else {
			return "", false
		}
		if c, ok := other.(*ssa.Const); ok && c.Value != nil {
			return strings.Trim(c.Value.ExactString(), `"`), true
		}
		return "", false
	}
	var errVals []struct {
		name string
		call *ssa.Call
		err  ssa.Value
	}
	if readAll != nil {
		errVals = append(errVals, struct {
			name string
			call *ssa.Call
			err  ssa.Value
		}{"io.ReadAll", readAll, errResult(readAll)})
	}
	errVals = append(errVals, struct {
		name string
		call *ssa.Call
		err  ssa.Value
	}{"json decode", unmarshal, errResult(unmarshal)})

	// R19.2 dominance part
	for k, dp := range dpCalls {
		dp := dp
		for _, ev := range errVals {
			if ev.err == nil {
				r.bad("R19.2", sname, fmt.Sprintf("datapath call #%d guarded by %s error", k+1, ev.name), w.Pos(dp.Pos()), "error result of "+ev.name+" is discarded")
				continue
			}
			guarded := errGuarded(serve, ev.call, ev.err, func(i ssa.Instruction) bool { return i == dp })
			r.check(guarded, "R19.2", sname, fmt.Sprintf("datapath call #%d guarded by %s error", k+1, ev.name), w.Pos(dp.Pos()),
				"unreachable from "+ev.name+" unless its error was tested nil", "slice programming is reachable on a path where "+ev.name+" failed (no return after the 4xx response?)")
		}
		// reachable only through PUT/POST arms
		hit := reach(serve, nil, func(i ssa.Instruction) bool { return i == dp }, nil, func(a, b *ssa.BasicBlock) bool {
			m, ok := methodEdge(a, b)
			return ok && (m == "PUT" || m == "POST")
		})
		r.check(hit == nil, "R19.2", sname, fmt.Sprintf("datapath call #%d only under PUT/POST", k+1), w.Pos(dp.Pos()),
			"every path from entry passes an r.Method == PUT|POST edge", "slice programming is reachable for a method other than PUT/POST")
	}

	// R19.1 per-path response discipline
	npaths := 0
	complete := enumPaths(serve, 2, 20000, func(p *Path) {
		if _, feasible := pathAtoms(p); !feasible {
			return // e.g. "helper returned (nil, err)" followed by "err == nil"
		}
		npaths++
		curPath = p
		defer func() { curPath = nil }()
		var statuses []string
		var statusVals []int64
		allKnown := true
		dp := false
		p.instrs(func(i ssa.Instruction) {
			if s, known, is := isResponse(i); is {
				if known {
					statuses = append(statuses, fmt.Sprint(s))
					statusVals = append(statusVals, s)
				} else {
					statuses = append(statuses, "?")
					allKnown = false
				}
			}
			if reachesDatapath(i) {
				dp = true
			}
		})
		method := ""
		failed := ""
		for i := 0; i+1 < len(p.Blocks); i++ {
			a, b := p.Blocks[i], p.Blocks[i+1]
			if m, ok := methodEdge(a, b); ok {
				method = m
			}
			for _, ev := range errVals {
				// the error tested may be a variable that holds the result of whichever step ran last
				// (one failure branch for both steps): on this path it is what came in over the edge taken
				if ev.err != nil && nilnessEdge(a, b, func(x ssa.Value) bool { return x == ev.err || p.resolve(x) == ev.err }, false) {
					failed = ev.name
				}
			}
		}
		desc := fmt.Sprintf("path[method=%s failed=%s]", orDash(method), orDash(failed))
		pos := w.Pos(p.last().Pos())
		if len(statuses) != 1 {
			r.bad("R19.1", sname, desc+" responses", pos, fmt.Sprintf("path emits %d responses %v instead of exactly one", len(statuses), statuses))
			return
		}
		if !allKnown {
			r.bad("R19.1", sname, desc+" status", pos, "response status is not a constant the rule can classify")
			return
		}
		st := statusVals[0]
		switch {
		case failed != "":
			r.check(st >= 400 && st < 500 && !dp, "R19.1", sname, desc+" → 4xx, no datapath", pos, "status "+statuses[0],
				fmt.Sprintf("decode failure path answers %d datapath=%v", st, dp))
		case method == "PUT" || method == "POST":
			r.check(st == 201 && dp, "R19.1", sname, desc+" → 201 + datapath", pos, "status 201 and slice programmed",
				fmt.Sprintf("well-formed %s answers %d datapath=%v", method, st, dp))
		default:
			r.check(st == 405 && !dp, "R19.1", sname, desc+" → 405, no datapath", pos, "status 405",
				fmt.Sprintf("method %q answers %d datapath=%v", method, st, dp))
		}
	})
	if !complete {
		brokenf(P, "R19.1", "too many paths in ServeHTTP")
	}
	r.floor("R19.1 paths through ServeHTTP", npaths, 4)

	// --- R19.3 unit table
	expect := map[string]int64{"bps": 1, "Kbps": 1000, "Mbps": 1000000, "Gbps": 1000000000, "default": 1000000}
	seenUnits := map[string]bool{}
	cname := w.FuncName(calc)
	if len(calc.Params) != 2 {
		brokenf(P, "R19.3", "calculateBitRates no longer takes (mbr, unit)")
	}
	unitParam := calc.Params[1]
	ok := enumPaths(calc, 2, 5000, func(p *Path) {
		unit := "default"
		for i := 0; i+1 < len(p.Blocks); i++ {
			x, op, y, ok := edgeFact(p.Blocks[i], p.Blocks[i+1])
			if !ok || op != token.EQL {
				continue
			}
			var other ssa.Value
			if x == unitParam {
				other = y
			} else if y == unitParam {
				other = x
			} else {
				continue
			}
			if c, ok := other.(*ssa.Const); ok && c.Value != nil {
				unit = strings.Trim(c.Value.ExactString(), `"`)
			}
		}
		ret, _ := p.last().(*ssa.Return)
		if ret == nil || len(ret.Results) != 1 {
			return
		}
		v := resolveAlongPath(p, res(ret, 0))
		construct := "unit " + unit
		pos := w.Pos(ret.Pos())
		if _, isConst := constInt(v); isConst {
			// the overflow clamp: allowed only on the branch where the product was not > 0
			clampOK := false
			for i := 0; i+1 < len(p.Blocks); i++ {
				_, op, y, ok := edgeFact(p.Blocks[i], p.Blocks[i+1])
				if ok && (op == token.LEQ || op == token.LSS) {
					if k, isK := constInt(y); isK && k == 0 {
						clampOK = true
					}
				}
			}
			r.check(clampOK, "R19.3", cname, construct+" clamp", pos, "constant returned only when the signed product is <= 0", "constant result on a path that is not the overflow clamp")
			return
		}
		s := symAlongPath(p, v)
		l, isLin := linearIn(s)
		want, known := expect[unit]
		if !known {
			// an extra unit name: accepted only if it scales like one of the documented ones? No: the table is closed.
			r.bad("R19.3", cname, construct, pos, "unit string not in the documented table {bps,Kbps,Mbps,Gbps}")
			return
		}
		seenUnits[unit] = true
		r.check(isLin && l.exact && l.den == 1 && l.num == want && l.leaf == calc.Params[0].Name(), "R19.3", cname, construct+" factor", pos,
			fmt.Sprintf("returns %s × %d", calc.Params[0].Name(), want), fmt.Sprintf("unit %s scales by %s, want ×%d", unit, s.String(), want))
	})
	if !ok {
		brokenf(P, "R19.3", "too many paths in calculateBitRates")
	}
	for u := range expect {
		if u == "Mbps" {
			// "Mbps" may legitimately share the default arm
			if !seenUnits["Mbps"] && !seenUnits["default"] {
				r.bad("R19.3", cname, "unit Mbps", w.Pos(calc.Pos()), "no path for Mbps/default")
			}
			continue
		}
		if !seenUnits[u] {
			r.bad("R19.3", cname, "unit "+u, w.Pos(calc.Pos()), "no path handles unit "+u)
		}
	}

	// --- R19.3 provenance: posted document → SliceInfo
	hname := w.FuncName(handle)
	fs := fieldStores(handle, "SliceInfo")
	wantCalc := map[string][2]string{
		"uplinkMbr":   {"NetworkSlice.SliceQos.UplinkMbr", "NetworkSlice.SliceQos.BitrateUnit"},
		"downlinkMbr": {"NetworkSlice.SliceQos.DownlinkMbr", "NetworkSlice.SliceQos.BitrateUnit"},
	}
	for f, want := range wantCalc {
		sts := fs[f]
		if len(sts) == 0 {
			r.bad("R19.3", hname, "SliceInfo."+f, w.Pos(handle.Pos()), "field is never filled from the posted document")
			continue
		}
		for _, st := range sts {
			s := symOf(st.Val)
			good := false
			if s.Op == "call" && strings.HasSuffix(s.Name, "pfcpiface.calculateBitRates") && len(s.Args) == 2 {
				good = s.Args[0].String() == want[0] && s.Args[1].String() == want[1]
			}
			r.check(good, "R19.3", hname, "SliceInfo."+f+" ← calculateBitRates("+want[0]+", unit)", w.Pos(st.Pos()), s.String(), "SliceInfo."+f+" is computed from "+s.String())
		}
	}
	wantCopy := map[string]string{"ulBurstBytes": "NetworkSlice.SliceQos.UlBurstBytes", "dlBurstBytes": "NetworkSlice.SliceQos.DlBurstBytes"}
	for f, want := range wantCopy {
		sts := fs[f]
		if len(sts) == 0 {
			r.bad("R19.3", hname, "SliceInfo."+f, w.Pos(handle.Pos()), "field is never filled from the posted document")
			continue
		}
		for _, st := range sts {
			s := symOf(st.Val)
			r.check(s.String() == want, "R19.3", hname, "SliceInfo."+f+" ← "+want, w.Pos(st.Pos()), s.String(), "SliceInfo."+f+" is computed from "+s.String())
		}
	}
	// handleSliceConfig hands the filled SliceInfo to upf.addSliceInfo on every path
	{
		calls := callsTo(handle, addSlice)
		r.check(len(calls) >= 1 && mustPass(handle, nil, isReturn, func(i ssa.Instruction) bool {
			c, ok := i.(ssa.CallInstruction)
			return ok && staticCallee(c) == addSlice
		}) == nil, "R19.3", hname, "every path calls upf.addSliceInfo", w.Pos(handle.Pos()), "must-pass-through", "a path through handleSliceConfig skips upf.addSliceInfo")
	}
	// upf.addSliceInfo forwards to the datapath plug-in
	{
		n := 0
		allInstrs(addSlice, func(i ssa.Instruction) {
			if c, ok := i.(ssa.CallInstruction); ok && c.Common().IsInvoke() && c.Common().Method.Name() == "AddSliceInfo" {
				n++
				s := symOf(c.Common().Args[0])
				r.check(len(addSlice.Params) == 2 && c.Common().Args[0] == addSlice.Params[1], "R19.3", w.FuncName(addSlice), "datapath.AddSliceInfo(sliceInfo)", w.Pos(i.Pos()), s.String(), "datapath receives "+s.String())
			}
		})
		r.check(n == 1, "R19.3", w.FuncName(addSlice), "one AddSliceInfo call", w.Pos(addSlice.Pos()), "1 call", fmt.Sprintf("%d calls to datapath.AddSliceInfo", n))
		// every return except the one under sliceInfo == nil passes through the datapath call
		for k, ret := range returnsOf(addSlice) {
			ret := ret
			nilArm := len(addSlice.Params) == 2 && onlyVia(addSlice, ret, func(a, b *ssa.BasicBlock) bool {
				return nilnessEdge(a, b, func(x ssa.Value) bool { return x == ssa.Value(addSlice.Params[1]) }, true)
			})
			if nilArm {
				continue
			}
			miss := mustPass(addSlice, nil, func(i ssa.Instruction) bool { return i == ssa.Instruction(ret) }, func(i ssa.Instruction) bool {
				c, ok := i.(ssa.CallInstruction)
				return ok && c.Common().IsInvoke() && c.Common().Method.Name() == "AddSliceInfo"
			})
			r.check(miss == nil, "R19.3", w.FuncName(addSlice), fmt.Sprintf("return #%d is preceded by the datapath call", k+1), w.Pos(ret.Pos()), "must-pass-through", "upf.addSliceInfo can return without programming the datapath (a posted slice is answered 201 but not programmed)")
		}
	}

	// --- BESS: SliceInfo → SliceMeterConfig → QosCommandAddArg
	bessAdd := w.Fn(P, "pfcpiface.(*bess).AddSliceInfo")
	bfs := fieldStores(bessAdd, "SliceMeterConfig")
	for f, want := range map[string]string{"N6RateBps": "SliceInfo.uplinkMbr", "N3RateBps": "SliceInfo.downlinkMbr", "N6BurstBytes": "SliceInfo.ulBurstBytes", "N3BurstBytes": "SliceInfo.dlBurstBytes"} {
		sts := bfs[f]
		if len(sts) == 0 {
			r.bad("R19.3", w.FuncName(bessAdd), "SliceMeterConfig."+f, w.Pos(bessAdd.Pos()), "never assigned")
			continue
		}
		for _, st := range sts {
			s := symOf(st.Val)
			r.check(s.String() == want, "R19.3", w.FuncName(bessAdd), "SliceMeterConfig."+f+" ← "+want, w.Pos(st.Pos()), s.String(), "assigned from "+s.String())
		}
	}
	ruleC19SliceMeter(w, r)
	ruleSliceMeterExact(w, r, "C19", "R19.7")
	ruleC19UP4(w, r)
	ruleC19DefaultTC(w, r)
}

func orDash(s string) string {
	if s == "" {
		return "-"
	}
	return s
}

// resolveAlongPath follows phis along the path.
func resolveAlongPath(p *Path, v ssa.Value) ssa.Value {
	for i := 0; i < 20; i++ {
		phi, ok := v.(*ssa.Phi)
		if !ok {
			return v
		}
		nv := p.phiValue(phi)
		if nv == nil {
			return v
		}
		v = nv
	}
	return v
}

// symAlongPath is symOf with phis resolved along the path.
func symAlongPath(p *Path, v ssa.Value) *Sym {
	v = resolveAlongPath(p, v)
	switch x := v.(type) {
	case *ssa.Convert:
		return &Sym{Op: "conv", Name: types.TypeString(x.Type(), nil), Args: []*Sym{symAlongPath(p, x.X)}, V: v}
	case *ssa.BinOp:
		return &Sym{Op: "bin", Name: x.Op.String(), Args: []*Sym{symAlongPath(p, x.X), symAlongPath(p, x.Y)}, V: v}
	}
	return symOf(v)
}

// ruleC19SliceMeter: in bess.addSliceMeter the uplink command (Fields action = farForwardU)
// takes N6 rate/burst, the downlink one (farForwardD) N3; pir = rate/8; gate = meter iff rate != 0.
func ruleC19SliceMeter(w *World, r *Report) {
	const P = "C19"
	add := w.Fn(P, "pfcpiface.(*bess).addSliceMeter")
	// the worker closure
	var worker *ssa.Function
	for _, a := range add.AnonFuncs {
		worker = a
	}
	if worker == nil {
		worker = add
	}
	name := w.FuncName(worker)
	fwdU := w.ConstInt(P, pfcpPkg, "farForwardU")
	fwdD := w.ConstInt(P, pfcpPkg, "farForwardD")
	gateMeter := w.ConstInt(P, pfcpPkg, "sliceMeterGateMeter")
	// every QosCommandAddArg literal: classify by its Fields[0] constant, then check Pir/Pbs/Gate provenance
	type lit struct {
		alloc ssa.Value
		st    map[string]*ssa.Store
	}
	lits := map[ssa.Value]*lit{}
	forAllWorkers := func(fn func(i ssa.Instruction)) {
		for _, h := range withClosures(add) {
			allInstrs(h, fn)
		}
	}
	forAllWorkers(func(i ssa.Instruction) {
		st, ok := i.(*ssa.Store)
		if !ok {
			return
		}
		fa, ok := st.Addr.(*ssa.FieldAddr)
		if !ok || rootTypeName(fa.X.Type()) != "QosCommandAddArg" {
			return
		}
		l := lits[fa.X]
		if l == nil {
			l = &lit{alloc: fa.X, st: map[string]*ssa.Store{}}
			lits[fa.X] = l
		}
		l.st[fieldVar(fa).Name()] = st
	})
	r.floor("R19.3 slice-meter command literals", len(lits), 2)
	dirs := map[string]bool{}
	for _, l := range lits {
		fst := l.st["Fields"]
		if fst == nil {
			r.bad("R19.3", name, "QosCommandAddArg.Fields", w.Pos(worker.Pos()), "slice meter command without key fields")
			continue
		}
		fsym := symOf(fst.Val).String()
		var dir, rate, burst string
		switch {
		case strings.Contains(fsym, fmt.Sprintf("(%d)", fwdU)) && !strings.Contains(fsym, fmt.Sprintf("(%d)", fwdD)):
			dir, rate, burst = "uplink", "SliceMeterConfig.N6RateBps", "SliceMeterConfig.N6BurstBytes"
		default:
			dir, rate, burst = "downlink", "SliceMeterConfig.N3RateBps", "SliceMeterConfig.N3BurstBytes"
		}
		// direction by the first key element constant
		first := firstElemConst(fst.Val)
		if first == fwdU {
			dir, rate, burst = "uplink", "SliceMeterConfig.N6RateBps", "SliceMeterConfig.N6BurstBytes"
		} else if first == fwdD {
			dir, rate, burst = "downlink", "SliceMeterConfig.N3RateBps", "SliceMeterConfig.N3BurstBytes"
		} else {
			r.bad("R19.3", name, "slice meter key action", w.Pos(fst.Pos()), fmt.Sprintf("first key field %d is neither farForwardU nor farForwardD", first))
			continue
		}
		dirs[dir] = true
		if pst := l.st["Pir"]; pst != nil {
			good, desc := sliceRateOK(pst, rate)
			r.check(good, "R19.3", name, dir+" Pir ← "+rate+"/8", w.Pos(pst.Pos()), desc, dir+" slice meter peak rate is "+desc)
		} else {
			r.bad("R19.3", name, dir+" Pir", w.Pos(worker.Pos()), "Pir not set")
		}
		if pst := l.st["Pbs"]; pst != nil {
			s := symAt(pst)
			fields := s.Fields()
			good := len(fields) == 1 && fields[0] == burst
			r.check(good, "R19.3", name, dir+" Pbs ← "+burst, w.Pos(pst.Pos()), s.String(), dir+" slice meter burst is "+s.String())
			// the branch that selects between the posted burst and the default tests the same field
			if phi, isPhi := pst.Val.(*ssa.Phi); isPhi {
				agree := true
				desc := ""
				for i, e := range phi.Edges {
					cond := dominatingRateTest(phi.Block().Preds[i], burst)
					_, isK := constInt(e)
					switch {
					case cond == "!=0" && !isK:
					case cond == "==0" && isK:
					default:
						agree = false
						desc = fmt.Sprintf("alternative %s is not selected by a test of %s", symOf(e).String(), burst)
					}
				}
				r.check(agree, "R19.3", name, dir+" Pbs selected by a test of "+burst, w.Pos(pst.Pos()), "posted burst iff it is non-zero", dir+" burst: "+desc)
			}
		} else {
			r.bad("R19.3", name, dir+" Pbs", w.Pos(worker.Pos()), "Pbs not set")
		}
		if gst := l.st["Gate"]; gst != nil {
			// gate must be the metering gate exactly when the rate of this direction is non-zero
			good, desc := gateFollowsRate(gst, rate, gateMeter)
			r.check(good, "R19.3", name, dir+" Gate = meter iff "+rate+" != 0", w.Pos(gst.Pos()), desc, desc)
		}
	}
	r.check(dirs["uplink"] && dirs["downlink"], "R19.3", name, "both directions programmed", w.Pos(worker.Pos()), "uplink and downlink commands", "a direction's slice meter command is missing")
}

// firstElemConst: for a []*FieldData literal built from intEnc(const) calls, the constant of element 0.
func firstElemConst(v ssa.Value) int64 {
	sl, ok := v.(*ssa.Slice)
	if !ok {
		return -1
	}
	al, ok := sl.X.(*ssa.Alloc)
	if !ok {
		return -1
	}
	res := int64(-1)
	if refs := al.Referrers(); refs != nil {
		for _, rf := range *refs {
			ia, ok := rf.(*ssa.IndexAddr)
			if !ok {
				continue
			}
			if k, ok := constInt(ia.Index); !ok || k != 0 {
				continue
			}
			for _, st := range directStores(ia) {
				if c, ok := st.Val.(*ssa.Call); ok && len(c.Call.Args) == 1 {
					if k, ok := constInt(c.Call.Args[0]); ok {
						res = k
					}
				}
			}
		}
	}
	return res
}

// symAt: flow-sensitive value of a store whose value is a phi/cell: resolve the reaching
// definitions of local variables at that program point (phis are already flow-sensitive in SSA).
func symAt(st *ssa.Store) *Sym { return symOf(st.Val) }

// sliceRateOK: the stored Pir is φ{rate/8, earlier…}: accept iff every non-constant
// alternative that reaches is rate/8 of the wanted field. SSA phis make this flow-sensitive:
// the value stored is exactly the reaching definition set.
func sliceRateOK(st *ssa.Store, rate string) (bool, string) {
	s := symOf(st.Val)
	phi, ok := st.Val.(*ssa.Phi)
	if !ok {
		l, lok := linearIn(s)
		return lok && l.leaf == rate && l.num == 1 && l.den == 8, s.String()
	}
	// per incoming edge: on the branch where the rate is non-zero the value must be rate/8;
	// on the rate == 0 branch the gate is the unmetered one and the value is not used.
	good := false
	for i, e := range phi.Edges {
		cond := dominatingRateTest(phi.Block().Preds[i], rate)
		switch cond {
		case "!=0":
			l, lok := linearIn(symOf(e))
			if !(lok && l.leaf == rate && l.num == 1 && l.den == 8) {
				return false, s.String()
			}
			good = true
		case "==0":
		default:
			return false, "peak rate alternative not governed by a test of " + rate + ": " + s.String()
		}
	}
	return good, s.String()
}

// gateFollowsRate: the Gate value is a phi whose metering alternative comes from the
// branch where `rate != 0` holds.
func gateFollowsRate(st *ssa.Store, rate string, gateMeter int64) (bool, string) {
	phi, ok := st.Val.(*ssa.Phi)
	if !ok {
		return false, "gate is not chosen by a branch: " + symOf(st.Val).String()
	}
	b := phi.Block()
	found := false
	for i, e := range phi.Edges {
		k, isK := constInt(e)
		if !isK {
			return false, "gate alternative is not a constant"
		}
		pred := b.Preds[i]
		// find the dominating If of pred that tests the rate
		cond := dominatingRateTest(pred, rate)
		if cond == "" {
			return false, "gate alternative not governed by a test of " + rate
		}
		if k == gateMeter {
			if cond != "!=0" {
				return false, fmt.Sprintf("metering gate chosen when %s %s", rate, cond)
			}
			found = true
		} else if cond != "==0" {
			return false, fmt.Sprintf("gate %d chosen when %s %s", k, rate, cond)
		}
	}
	return found, fmt.Sprintf("gate=%d iff %s != 0", gateMeter, rate)
}

func dominatingRateTest(b *ssa.BasicBlock, rate string) string {
	// walk up single-predecessor chain to the If
	cur := b
	for steps := 0; steps < 10 && cur != nil; steps++ {
		if len(cur.Preds) != 1 {
			return ""
		}
		p := cur.Preds[0]
		x, op, y, ok := edgeFact(p, cur)
		if ok {
			if k, isK := constInt(y); isK && k == 0 {
				s := symOf(x)
				if s.String() == rate {
					switch op {
					case token.NEQ, token.GTR:
						return "!=0"
					case token.EQL, token.LEQ:
						return "==0"
					}
				}
			}
		}
		cur = p
	}
	return ""
}

func ruleC19UP4(w *World, r *Report) {
	const P = "C19"
	f := w.Fn(P, "pfcpiface.(*UP4).AddSliceInfo")
	name := w.FuncName(f)
	// MeterConfig literal: Pir ← max-select of (uplinkMbr, downlinkMbr); Pburst ← matching burst
	fs := fieldStores(f, "MeterConfig")
	for fld, wantSet := range map[string][]string{"Pir": {"SliceInfo.downlinkMbr", "SliceInfo.uplinkMbr"}, "Pburst": {"SliceInfo.dlBurstBytes", "SliceInfo.ulBurstBytes"}} {
		sts := fs[fld]
		if len(sts) == 0 {
			r.bad("R19.3", name, "MeterConfig."+fld, w.Pos(f.Pos()), "not set")
			continue
		}
		for _, st := range sts {
			s := symOf(st.Val)
			got := s.Fields()
			r.check(strings.Join(got, ",") == strings.Join(wantSet, ","), "R19.3", name, "MeterConfig."+fld+" ← larger direction", w.Pos(st.Pos()), s.String(), "MeterConfig."+fld+" computed from "+s.String())
		}
	}
	// the ul/dl selection pairs rate and burst of the same direction: on the branch
	// uplinkMbr > downlinkMbr both take ul*, else both dl*
	var phis []*ssa.Phi
	allInstrs(f, func(i ssa.Instruction) {
		if p, ok := i.(*ssa.Phi); ok {
			phis = append(phis, p)
		}
	})
	paired := true
	desc := ""
	for _, p := range phis {
		if len(p.Edges) != 2 {
			continue
		}
		a, b := symOf(p.Edges[0]).String(), symOf(p.Edges[1]).String()
		desc += fmt.Sprintf("[%s|%s] ", a, b)
	}
	// edges of all 2-way phis in the same block must agree on direction per edge
	byBlock := map[*ssa.BasicBlock][]*ssa.Phi{}
	for _, p := range phis {
		byBlock[p.Block()] = append(byBlock[p.Block()], p)
	}
	checkedPair := false
	for _, ps := range byBlock {
		if len(ps) < 2 {
			continue
		}
		for e := range ps[0].Edges {
			dir := ""
			for _, p := range ps {
				s := symOf(p.Edges[e]).String()
				d := ""
				if strings.Contains(s, "uplink") || strings.Contains(s, "ulBurst") {
					d = "ul"
				} else if strings.Contains(s, "downlink") || strings.Contains(s, "dlBurst") {
					d = "dl"
				}
				if d == "" {
					continue
				}
				checkedPair = true
				if dir == "" {
					dir = d
				} else if dir != d {
					paired = false
				}
			}
		}
	}
	r.check(paired && checkedPair, "R19.3", name, "rate and burst selected from the same direction", w.Pos(f.Pos()), desc, "rate and burst of different directions are combined: "+desc)
	// meter cell index: GetSliceTCMeterIndex(conf.SliceID, conf.DefaultTC)
	get := w.Fn(P, "pfcpiface.GetSliceTCMeterIndex")
	calls := callsTo(f, get)
	r.check(len(calls) == 1, "R19.3", name, "one GetSliceTCMeterIndex call", w.Pos(f.Pos()), "1", fmt.Sprintf("%d calls", len(calls)))
	for _, c := range calls {
		a0, a1 := symOf(c.Common().Args[0]).String(), symOf(c.Common().Args[1]).String()
		r.check(a0 == "UP4.conf.SliceID" && a1 == "UP4.conf.DefaultTC", "R19.3", name, "GetSliceTCMeterIndex(conf.SliceID, conf.DefaultTC)", w.Pos(c.Pos()), a0+", "+a1, "slice meter cell computed from ("+a0+", "+a1+")")
	}
}

// ruleC19DefaultTC (R19.6): the slice meter cell UP4 programs for a posted slice is indexed by the
// *configured* default traffic class. 0 (best effort) is a legal class, so the documented default 3 can
// only be installed before the file is decoded: a "fill in when zero" after decoding turns a configured
// class 0 into class 3 and the POST programs another cell than the one the configuration names.
func ruleC19DefaultTC(w *World, r *Report) {
	const P = "C19"
	load := w.Fn(P, "pfcpiface.LoadConfigFile")
	var unm ssa.Instruction
	allInstrs(load, func(i ssa.Instruction) {
		if c, ok := i.(*ssa.Call); ok && calleeName(c) == "encoding/json.Unmarshal" {
			unm = i
		}
	})
	if unm == nil {
		r.bad("R19.6", w.FuncName(load), "the configuration is decoded by encoding/json", w.Pos(load.Pos()), "no json.Unmarshal call in LoadConfigFile")
		return
	}
	n := 0
	for _, f := range w.Funcs {
		fname := w.FuncName(f)
		if strings.HasPrefix(fname, "test/") || strings.HasPrefix(fname, "pkg/") {
			continue
		}
		allInstrs(f, func(i ssa.Instruction) {
			st, ok := i.(*ssa.Store)
			if !ok {
				return
			}
			fa, ok := st.Addr.(*ssa.FieldAddr)
			if !ok || fieldVar(fa) == nil || fieldVar(fa).Name() != "DefaultTC" {
				return
			}
			if nt := namedOf(fa.X.Type()); nt == nil || nt.Obj().Name() != "P4rtcInfo" {
				return
			}
			n++
			okS := f == load && instrDominates(st, unm)
			r.check(okS, "R19.6", fname, "the default traffic class is only pre-set before decoding", w.Pos(st.Pos()), "store dominates json.Unmarshal", "default_tc is written after the file was decoded: a configured class 0 (best effort) cannot be told from a missing one and is replaced, so a posted slice is metered in the cell of another traffic class")
		})
	}
	r.floor("R19.6 writers of P4rtcInfo.DefaultTC", n, 1)
}
