package main

// Rules added after the fifth round of seeded changes. Each is a structural necessary condition of the
// property it is filed under (and re-filed, under a rule number of its own, where a second property needs it).

import (
	"fmt"
	"go/token"
	"go/types"
	"strings"

	"golang.org/x/tools/go/ssa"
)

// ruleLocalSEIDArgs: every rule of a session is parsed, stored and programmed under the session's UP SEID —
// the key the other rules of the session are looked up by (a PDR finds its FAR under (FAR ID, F-SEID)). In
// the two handlers the SEID argument of parsePDR/parseFAR/parseQER is the session's localSEID or the SEID the
// session was looked up by.
func ruleLocalSEIDArgs(w *World, r *Report, prop, rule string) {
	n := 0
	for _, hn := range []string{"pfcpiface.(*PFCPConn).handleSessionEstablishmentRequest", "pfcpiface.(*PFCPConn).handleSessionModificationRequest"} {
		h := w.Fn(prop, hn)
		var lookupKeys []ssa.Value
		allInstrs(h, func(i ssa.Instruction) {
			if c, ok := i.(*ssa.Call); ok && c.Call.IsInvoke() && c.Call.Method.Name() == "GetSession" && len(c.Call.Args) == 1 {
				lookupKeys = append(lookupKeys, c.Call.Args[0])
			}
		})
		for _, pn := range []string{"pfcpiface.(*pdr).parsePDR", "pfcpiface.(*far).parseFAR", "pfcpiface.(*qer).parseQER"} {
			pf := w.Fn(prop, pn)
			for k, c := range callsTo(h, pf) {
				n++
				arg := c.Common().Args[2]
				good := false
				for _, lk := range lookupKeys {
					if arg == lk {
						good = true
					}
				}
				s := symOf(arg).String()
				if strings.HasSuffix(s, ".localSEID") {
					good = true
				}
				r.check(good, rule, hn, fmt.Sprintf("%s call #%d files the rule under the session's UP SEID", pf.Name(), k+1), w.Pos(c.Pos()), s, "the rule is parsed with SEID "+s+": it is stored and programmed under a key the session's other rules do not use (its PDR→FAR/QER look-ups miss, and they can hit the rules of whichever session owns that SEID)")
			}
		}
	}
	r.floor(rule+" parse calls in the session handlers", n, 9)
}

// ruleEveryChooseGetsTEID: a PDR whose F-TEID the CP function left to the UP (CHOOSE) gets one, whatever its
// interface: from the true edge of p.UPAllocateFteid every path to session.CreatePDR runs Allocate.
func ruleEveryChooseGetsTEID(w *World, r *Report, prop, rule string) {
	h := w.Fn(prop, "pfcpiface.(*PFCPConn).handleSessionEstablishmentRequest")
	hn := w.FuncName(h)
	create := w.Fn(prop, "pfcpiface.(*PFCPSession).CreatePDR")
	alloc := w.Fn(prop, "pfcpiface.(*FTEIDGenerator).Allocate")
	n := 0
	for _, b := range h.Blocks {
		for _, sc := range b.Succs {
			v, truth, ok := boolEdge(b, sc)
			if !ok || !truth || len(sc.Instrs) == 0 {
				continue
			}
			ld, isLoad := v.(*ssa.UnOp)
			if !isLoad {
				continue
			}
			fa, isFA := ld.X.(*ssa.FieldAddr)
			if !isFA || fieldVar(fa) == nil || fieldVar(fa).Name() != "UPAllocateFteid" {
				continue
			}
			n++
			first := sc.Instrs[0]
			isAlloc := func(i ssa.Instruction) bool { return isCallTo(i, alloc) }
			isCreate := func(i ssa.Instruction) bool { return isCallTo(i, create) }
			miss := reach(h, first, isCreate, isAlloc, nil)
			if isAlloc(first) {
				miss = nil
			}
			r.check(miss == nil, rule, hn, "a CHOOSE F-TEID is allocated whatever else holds for the PDR", w.Pos(first.Pos()), "Allocate on every path from UPAllocateFteid to CreatePDR", "a PDR that asks the UP to choose its F-TEID can be stored without one (a further condition stands between the flag and the allocation): the response reports TEID 0 as chosen — shared by every such PDR — and the datapath rule matches TEID 0 / mask 0")
		}
	}
	r.floor(rule+" tests of UPAllocateFteid in the establishment handler", n, 1)
}

// ruleProductStartsEmpty: the rules of a port pair are exactly the appended ones: a result slice that grows by
// append starts with length 0 (a slice made with a length holds that many all-zero rules — any port, mask 0 —
// in front of the real ones).
func ruleProductStartsEmpty(w *World, r *Report, prop, rule string) {
	cart := w.Fn(prop, "pfcpiface.CreatePortRangeCartesianProduct")
	n := 0
	allInstrs(cart, func(i ssa.Instruction) {
		c, ok := i.(*ssa.Call)
		if !ok || calleeName(c) != "builtin.append" {
			return
		}
		n++
		seen := map[ssa.Value]bool{}
		var bad ssa.Value
		var walk func(v ssa.Value)
		walk = func(v ssa.Value) {
			if seen[v] || bad != nil {
				return
			}
			seen[v] = true
			switch x := v.(type) {
			case *ssa.Phi:
				for _, e := range x.Edges {
					walk(e)
				}
			case *ssa.Call:
				if calleeName(x) == "builtin.append" {
					walk(x.Call.Args[0])
					return
				}
				bad = v
			case *ssa.MakeSlice:
				if k, isK := constInt(x.Len); !isK || k != 0 {
					bad = v
				}
			case *ssa.Const:
				if !x.IsNil() {
					bad = v
				}
			case *ssa.Slice:
				// s[:0]
				if k, isK := constInt(x.High); x.High != nil && isK && k == 0 {
					return
				}
				bad = v
			default:
				bad = v
			}
		}
		walk(c.Call.Args[0])
		r.check(bad == nil, rule, w.FuncName(cart), "the result grows from an empty slice", w.Pos(c.Pos()), "nil / make(…, 0, n)", "the slice the rules are appended to starts as "+symOf(bad).String()+": its initial elements are all-zero rules (any source port, any destination port) that precede the real ones — the pair matches every port")
	})
	r.floor(rule+" appends in the Cartesian product", n, 1)
}

// ruleNoDurationSquared: a time.Duration is already a number of nanoseconds; multiplying one by a unit
// (timeout * time.Millisecond) scales it a second time — a one-second wait becomes eleven days and the
// receive loop that waits for it is wedged.
func ruleNoDurationSquared(w *World, r *Report, rule string, funcs map[*ssa.Function]bool) {
	isDur := func(t types.Type) bool {
		n, ok := t.(*types.Named)
		return ok && n.Obj().Pkg() != nil && n.Obj().Pkg().Path() == "time" && n.Obj().Name() == "Duration"
	}
	n := 0
	for _, f := range sortedFuncs(w, funcs) {
		allInstrs(f, func(i ssa.Instruction) {
			bo, ok := i.(*ssa.BinOp)
			if !ok || bo.Op != token.MUL || !isDur(bo.Type()) {
				return
			}
			n++
			// a count times a unit: one side is a constant or a conversion from a plain number
			count := func(v ssa.Value) bool {
				if cv, ok := v.(*ssa.Convert); ok {
					return !isDur(cv.X.Type())
				}
				return false
			}
			_, kx := bo.X.(*ssa.Const)
			_, ky := bo.Y.(*ssa.Const)
			good := count(bo.X) || count(bo.Y) || (kx && ky)
			// duration-valued variable × constant: fine only when the constant is a plain factor, which the type
			// system cannot tell from a unit; accept small factors
			if !good {
				for _, side := range []ssa.Value{bo.X, bo.Y} {
					if k, isK := constInt(side); isK && k > 0 && k < 1000 {
						good = true
					}
				}
			}
			r.check(good, rule, w.FuncName(f), "a duration is not scaled by a unit twice", w.Pos(bo.Pos()), "count × unit", "a time.Duration value is multiplied by a time unit: it already is a duration, the product is a million (or a billion) times longer — the wait never ends within the life of the association")
		})
	}
	r.Extra[rule+"_duration_products"] = n
}

// ruleCounterAlwaysReleased: releaseCounterID puts the cell back whatever its number (the counter pool, unlike
// the meter pools, starts at cell 0).
func ruleCounterAlwaysReleased(w *World, r *Report, prop, rule string) {
	f := w.Fn(prop, "pfcpiface.(*UP4).releaseCounterID")
	isAdd := func(i ssa.Instruction) bool {
		c, ok := i.(ssa.CallInstruction)
		return ok && c.Common().IsInvoke() && c.Common().Method.Name() == "Add" && strings.Contains(symOf(c.Common().Value).String(), "counterIDsPool")
	}
	miss := mustPass(f, nil, isReturn, isAdd)
	pos := w.Pos(f.Pos())
	if miss != nil {
		pos = w.Pos(miss.Pos())
	}
	r.check(miss == nil, rule, w.FuncName(f), "a released counter cell goes back to the pool on every path", pos, "counterIDsPool.Add on every path", "releaseCounterID can return without putting the cell back (a guard on the cell number: the counter pool starts at 0, cell 0 is a cell like any other): each such release loses the cell for good, and a full-load round later an establishment is refused")
	// the pool's lower end, for the record: initCounter fills it from 0
}

// ruleNoSessionQerWithoutAll: a QER is the session's limiter only if every PDR references it: once the
// intersection with one PDR's list is empty nothing is labelled.
func ruleNoSessionQerWithoutAll(w *World, r *Report, prop, rule string) {
	f := w.Fn(prop, "pfcpiface.(*PFCPSession).MarkSessionQer")
	fn := w.FuncName(f)
	n := 0
	isLabel := func(i ssa.Instruction) bool {
		st, ok := i.(*ssa.Store)
		if !ok {
			return false
		}
		fa, ok := st.Addr.(*ssa.FieldAddr)
		return ok && fieldVar(fa) != nil && fieldVar(fa).Name() == "qosLevel"
	}
	for _, b := range f.Blocks {
		for _, sc := range b.Succs {
			x, op, y, ok := edgeFact(b, sc)
			if !ok {
				continue
			}
			k, isK := constInt(y)
			lc, isLen := x.(*ssa.Call)
			// len(x) == 0, written as == 0, < 1 or <= 0
			empty := isK && ((op == token.EQL && k == 0) || (op == token.LSS && k == 1) || (op == token.LEQ && k == 0))
			if !empty || !isLen || calleeName(lc) != "builtin.len" {
				continue
			}
			ic, isCall := lc.Call.Args[0].(*ssa.Call)
			if !isCall || staticCallee(ic) == nil || staticCallee(ic).Name() != "Intersect" || len(sc.Instrs) == 0 {
				continue
			}
			n++
			hit := reach(f, sc.Instrs[0], isLabel, nil, nil)
			if isLabel(sc.Instrs[0]) {
				hit = sc.Instrs[0]
			}
			r.check(hit == nil, rule, fn, "a PDR that shares no QER with the others ends the search", w.Pos(sc.Instrs[0].Pos()), "no label reachable from the empty intersection", "with one PDR's QER list disjoint from the candidates the search goes on and a QER is labelled session-wide although that PDR does not reference it: on BESS it polices that PDR's traffic as well (the session QER table is keyed by F-SEID and direction only)")
		}
	}
	r.floor(rule+" empty-intersection tests", n, 1)
}

// rulePFDLoopExits: an accepted PFD Management Request provisions every application and every PFD it carries:
// the loops over the request are left early only towards a rejecting reply.
func rulePFDLoopExits(w *World, r *Report, prop, rule string) {
	h := w.Fn(prop, "pfcpiface.(*PFCPConn).handlePFDMgmtRequest")
	hn := w.FuncName(h)
	accepted := successReturns(h)
	n := 0
	seen := map[*ssa.BasicBlock]bool{}
	for _, hdr := range h.Blocks {
		isLoop := false
		for _, p := range hdr.Preds {
			if hdr.Dominates(p) {
				isLoop = true
			}
		}
		if !isLoop || seen[hdr] {
			continue
		}
		seen[hdr] = true
		n++
		body := naturalLoop(hdr)
		for _, b := range h.Blocks {
			if !body[b] || b == hdr {
				continue
			}
			for _, sc := range b.Succs {
				if body[sc] || len(sc.Instrs) == 0 {
					continue
				}
				hit := reach(h, sc.Instrs[0], accepted, nil, nil)
				if accepted(sc.Instrs[0]) {
					hit = sc.Instrs[0]
				}
				r.check(hit == nil, rule, hn, "the loops over the request are left early only to refuse it", w.Pos(b.Instrs[len(b.Instrs)-1].Pos()), "every early exit ends in a rejecting reply", "a loop over the request's applications / PFD contents can be left early (break) and the request is still answered 'accepted': the elements that were not visited are silently dropped — a PDR naming the application matches on less than was provisioned")
			}
		}
	}
	r.floor(rule+" loops in the PFD handler", n, 2)
}

// naturalLoop: the blocks of the natural loop of hdr — hdr and everything that reaches one of its back-edge
// sources without passing through hdr.
func naturalLoop(hdr *ssa.BasicBlock) map[*ssa.BasicBlock]bool {
	body := map[*ssa.BasicBlock]bool{hdr: true}
	var work []*ssa.BasicBlock
	for _, p := range hdr.Preds {
		if hdr.Dominates(p) && !body[p] {
			body[p] = true
			work = append(work, p)
		}
	}
	for len(work) > 0 {
		b := work[len(work)-1]
		work = work[:len(work)-1]
		for _, p := range b.Preds {
			if !body[p] {
				body[p] = true
				work = append(work, p)
			}
		}
	}
	return body
}

// ruleDoneKeyIsStoredKey: the node forgets an association by the string the association reports on its way
// out; it remembered it under net.Addr.String() of the peer. The report is RemoteAddr().String() — anything
// assembled by hand ("ip:port") differs for IPv6 ("[::1]:8805"), the entry stays, and every later datagram of
// that peer is dropped as "for an existing connection".
func ruleDoneKeyIsStoredKey(w *World, r *Report, prop, rule string) {
	f := w.Fn(prop, "pfcpiface.(*PFCPConn).shutdownConn")
	n := 0
	for _, g := range withClosures(f) {
		allInstrs(g, func(i ssa.Instruction) {
			snd, ok := i.(*ssa.Send)
			if !ok || !strings.HasSuffix(symOf(snd.Chan).String(), "PFCPConn.done") {
				return
			}
			n++
			good := false
			if c, ok := snd.X.(*ssa.Call); ok && c.Call.IsInvoke() && c.Call.Method.Name() == "String" {
				if rc, ok := c.Call.Value.(*ssa.Call); ok && ((rc.Call.IsInvoke() && rc.Call.Method.Name() == "RemoteAddr") || (staticCallee(rc) != nil && staticCallee(rc).Name() == "RemoteAddr")) {
					good = true
				}
			}
			r.check(good, rule, w.FuncName(g), "the exit report names the association by RemoteAddr().String()", w.Pos(snd.Pos()), "the key it was stored under", "the association reports its exit as "+symOf(snd.X).String()+", not as RemoteAddr().String(), the form it is remembered under: for an IPv6 peer the two differ, the node never forgets the association and drops every later datagram of the peer — its next Association Setup Request is never answered")
		})
	}
	r.floor(rule+" exit reports", n, 1)
}

// ruleOnlyReadDeadline: the idle time-out of an association is a read deadline. A deadline that covers writes
// as well (SetDeadline, SetWriteDeadline) makes a response written later than read_timeout after the reader
// last armed it fail: the request was processed and its response is dropped.
func ruleOnlyReadDeadline(w *World, r *Report, prop, rule string) {
	nRead := 0
	for f := range w.allFuncs() {
		if f.Pkg == nil || f.Pkg.Pkg.Path() != pfcpPkg || strings.HasPrefix(w.FuncName(f), "test/") {
			continue
		}
		// the helper sockets of the datapath plug-ins (end markers, notifications) are not the PFCP socket
		{
			root := f
			for root.Parent() != nil {
				root = root.Parent()
			}
			if root.Signature.Recv() != nil {
				if rt := rootTypeName(root.Signature.Recv().Type()); rt == "bess" || rt == "UP4" {
					continue
				}
			}
		}
		f := f
		allInstrs(f, func(i ssa.Instruction) {
			c, ok := i.(ssa.CallInstruction)
			if !ok {
				return
			}
			name := ""
			var recv ssa.Value
			if c.Common().IsInvoke() {
				name, recv = c.Common().Method.Name(), c.Common().Value
			} else if callee := c.Common().StaticCallee(); callee != nil && callee.Signature.Recv() != nil && len(c.Common().Args) > 0 {
				name, recv = callee.Name(), c.Common().Args[0]
			}
			if recv == nil || !(rootTypeName(recv.Type()) == "PFCPConn" || typeName(recv.Type()) == "net.Conn" || strings.HasSuffix(typeName(recv.Type()), "net.UDPConn")) {
				return
			}
			switch name {
			case "SetReadDeadline":
				nRead++
			case "SetDeadline", "SetWriteDeadline":
				r.bad(rule, w.FuncName(f), "the PFCP socket only ever gets a read deadline", w.Pos(i.Pos()), name+" also bounds writes: a response transmitted more than the time-out after the reader last renewed the deadline fails with i/o timeout and is dropped, although the request was processed")
			}
		})
	}
	r.check(nRead >= 1, rule, "pfcpiface", "the reader arms a read deadline", "-", fmt.Sprintf("%d SetReadDeadline calls", nRead), "no SetReadDeadline on the PFCP socket any more: an association that went silent is never noticed (or the deadline is set by a call that also bounds writes)")
}

// ruleHTTPShutdownBounded: Stop() reaches the PFCP node: the wait for the REST server is bounded (a context
// with a time-out), a client stalled in a request cannot hold it.
func ruleHTTPShutdownBounded(w *World, r *Report, prop, rule string) {
	f := w.Fn(prop, "pfcpiface.(*PFCPIface).Stop")
	n := 0
	allInstrs(f, func(i ssa.Instruction) {
		c, ok := i.(*ssa.Call)
		if !ok || staticCallee(c) == nil || staticCallee(c).Name() != "Shutdown" || !strings.Contains(calleeName(c), "net/http.Server") {
			return
		}
		n++
		ctx := c.Call.Args[len(c.Call.Args)-1]
		good := false
		if ex, ok := ctx.(*ssa.Extract); ok && ex.Index == 0 {
			if cc, ok := ex.Tuple.(*ssa.Call); ok && (calleeName(cc) == "context.WithTimeout" || calleeName(cc) == "context.WithDeadline") {
				good = true
			}
		}
		r.check(good, rule, w.FuncName(f), "the wait for the REST server is bounded", w.Pos(c.Pos()), "context.WithTimeout", "http.Server.Shutdown is given "+symOf(ctx).String()+": it waits for every open request for ever; one stalled client keeps Stop() from reaching the PFCP node — no session is removed, the datapath is never released, the agent does not stop")
	})
	r.floor(rule+" http shutdown calls in Stop", n, 1)
}

// ruleNewConnOnlyForUnknownPeer: the listener creates an association only for a peer it has none for: a
// second PFCPConn for the same address replaces the map entry of the first, whose exit report then deletes
// the entry of the second (the map is keyed by address, not by connection).
func ruleNewConnOnlyForUnknownPeer(w *World, r *Report, prop, rule string) {
	f := w.Fn(prop, "pfcpiface.(*PFCPNode).handleNewPeers")
	newConn := w.Fn(prop, "pfcpiface.(*PFCPNode).NewPFCPConn")
	n := 0
	for _, c := range callsTo(f, newConn) {
		n++
		g := onlyVia(f, c.(ssa.Instruction), func(a, b *ssa.BasicBlock) bool {
			v, truth, ok := boolEdge(a, b)
			if !ok || truth {
				return false
			}
			ex, isEx := v.(*ssa.Extract)
			if !isEx || ex.Index != 1 {
				return false
			}
			lc, isCall := ex.Tuple.(*ssa.Call)
			return isCall && strings.HasSuffix(calleeName(lc), "sync.Map).Load") && strings.HasSuffix(symOf(lc.Call.Args[0]).String(), "pConns")
		})
		r.check(g, rule, w.FuncName(f), "a new association only for a peer without one", w.Pos(c.Pos()), "behind pConns.Load(addr) not found", "NewPFCPConn can run for an address that still has an entry in pConns: the new connection replaces the entry, and when the old one reports its exit the node deletes the entry by address — the live association is forgotten (Stop does not wait for it, its sessions outlive the agent)")
	}
	r.floor(rule+" association constructor calls in the listener", n, 1)
}

// ruleSocketAddresses: the two BESS helper sockets are dialled at the addresses configured for them.
func ruleSocketAddresses(w *World, r *Report, prop, rule string) {
	f := w.Fn(prop, "pfcpiface.(*bess).SetUpfInfo")
	want := map[string][2]string{
		"endMarkerSocket":  {"Conf.EndMarkerSockAddr", "PfcpAddr"},
		"notifyBessSocket": {"Conf.NotifySockAddr", "SockAddr"},
	}
	consts := map[string]string{}
	for _, nm := range []string{"PfcpAddr", "SockAddr"} {
		if s, ok := constStringOf(w, nm); ok {
			consts[nm] = s
		}
	}
	n := 0
	allInstrs(f, func(i ssa.Instruction) {
		st, ok := i.(*ssa.Store)
		if !ok {
			return
		}
		fa, ok := st.Addr.(*ssa.FieldAddr)
		if !ok || fieldVar(fa) == nil {
			return
		}
		spec, ok := want[fieldVar(fa).Name()]
		if !ok {
			return
		}
		ex, ok := st.Val.(*ssa.Extract)
		if !ok {
			return
		}
		dc, ok := ex.Tuple.(*ssa.Call)
		if !ok || calleeName(dc) != "net.Dial" {
			return
		}
		n++
		s := symOf(dc.Call.Args[1])
		good := true
		sawField := false
		for _, l := range s.Leaves() {
			switch {
			case l == "F:"+spec[0]:
				sawField = true
			case strings.HasPrefix(l, "C:") && strings.Contains(l, consts[spec[1]]) && consts[spec[1]] != "":
			case l == `C:""`:
			default:
				good = false
			}
		}
		r.check(good && sawField, rule, w.FuncName(f), fieldVar(fa).Name()+" is dialled at its configured address", w.Pos(dc.Pos()), spec[0]+" or "+spec[1], fieldVar(fa).Name()+" is dialled at "+s.String()+" instead of "+spec[0]+" (default "+spec[1]+"): with the sockets named in the configuration the end markers go to a socket BESS does not read them from (or the dial fails and the sender loop never starts) — no End Marker reaches the datapath")
	})
	r.floor(rule+" helper sockets dialled", n, 2)
}

// ruleResetBothCells: giving a meter back resets every cell it owns: the downlink cell is left out only when it
// is the uplink cell (a unidirectional meter), whatever the meter's kind.
func ruleResetBothCells(w *World, r *Report, prop, rule string) {
	f := w.Fn(prop, "pfcpiface.(*UP4).resetMeter")
	fieldRead := func(v ssa.Value, name string) bool {
		for {
			cv, ok := v.(*ssa.Convert)
			if !ok {
				break
			}
			v = cv.X
		}
		switch x := v.(type) {
		case *ssa.UnOp:
			fa, ok := x.X.(*ssa.FieldAddr)
			return ok && fieldVar(fa) != nil && fieldVar(fa).Name() == name
		case *ssa.Field:
			return fieldVar(x) != nil && fieldVar(x).Name() == name
		}
		return false
	}
	// the entry whose index is the downlink cell
	isDown := func(i ssa.Instruction) bool {
		st, ok := i.(*ssa.Store)
		if !ok {
			return false
		}
		fa, ok := st.Addr.(*ssa.FieldAddr)
		return ok && fieldVar(fa) != nil && fieldVar(fa).Name() == "Index" && rootTypeName(fa.X.Type()) == "Index" && fieldRead(st.Val, "downlinkCellID")
	}
	n := 0
	allInstrs(f, func(i ssa.Instruction) {
		if isDown(i) {
			n++
		}
	})
	r.floor(rule+" downlink entries in resetMeter", n, 1)
	same := func(a, b *ssa.BasicBlock) bool {
		x, op, y, ok := edgeFact(a, b)
		if !ok || op != token.EQL {
			return false
		}
		return (fieldRead(x, "downlinkCellID") && fieldRead(y, "uplinkCellID")) || (fieldRead(x, "uplinkCellID") && fieldRead(y, "downlinkCellID"))
	}
	hit := reach(f, nil, isReturn, isDown, same)
	pos := w.Pos(f.Pos())
	if hit != nil {
		pos = w.Pos(hit.Pos())
	}
	r.check(hit == nil, rule, w.FuncName(f), "the downlink cell is reset unless it is the uplink cell", pos, "left out only on downlinkCellID == uplinkCellID", "resetMeter can finish without resetting the downlink cell although it differs from the uplink cell (the decision looks at something other than the two cell numbers): a bidirectional application meter keeps its downlink rate after the session is gone, and the next session that is handed the cell inherits it")
}

// ruleOneBatch: the table entries of one call are written in one request: the caller reads the per-entry
// status list of that one batch (ALREADY_EXISTS on a shared entry is tolerated, the rest of the batch is
// applied); entry-by-entry writes that stop at the first error drop the remaining entries of the PDR.
func ruleOneBatch(w *World, r *Report, prop, rule string) {
	f := w.Fn(prop, "pfcpiface.(*P4rtClient).ApplyTableEntries")
	var writes []ssa.CallInstruction
	for _, c := range callsIn(f, func(c ssa.CallInstruction) bool {
		g := staticCallee(c)
		return g != nil && (g.Name() == "WriteBatchReq" || g.Name() == "WriteReq")
	}) {
		writes = append(writes, c)
	}
	r.check(len(writes) == 1, rule, w.FuncName(f), "one write request per call", w.Pos(f.Pos()), "1", fmt.Sprintf("%d write calls in ApplyTableEntries", len(writes)))
	for _, c := range writes {
		ins := c.(ssa.Instruction)
		again := reach(f, ins, func(j ssa.Instruction) bool { return j == ins }, nil, nil)
		r.check(again == nil && staticCallee(c).Name() == "WriteBatchReq", rule, w.FuncName(f), "the entries go out as one batch", w.Pos(c.Pos()), "WriteBatchReq outside the loop", "the entries are written one request at a time and the first error ends the call: after ALREADY_EXISTS on the sessions entry two PDRs of a direction share (which the caller tolerates) the terminations and applications entries of the later PDR are never written — the session is accepted without them")
	}
}

// ruleAppQerIsFirst: the application QER of a PDR is the first of its QER list (the second, if any, is the
// session QER): the QER UP4 takes gate, QFI and traffic class from is found by comparing with element 0.
func ruleAppQerIsFirst(w *World, r *Report, prop, rule string) {
	f := w.Fn(prop, "pfcpiface.findRelatedApplicationQER")
	n := 0
	for _, ret := range returnsOf(f) {
		if !successReturns(f)(ret) {
			continue
		}
		n++
		g := onlyVia(f, ret, func(a, b *ssa.BasicBlock) bool {
			x, op, y, ok := edgeFact(a, b)
			if !ok || op != token.EQL {
				return false
			}
			first := func(v ssa.Value) bool {
				ld, ok := v.(*ssa.UnOp)
				if !ok {
					return false
				}
				ia, ok := ld.X.(*ssa.IndexAddr)
				if !ok {
					return false
				}
				k, isK := constInt(ia.Index)
				return isK && k == 0 && strings.HasSuffix(symOf(ia.X).String(), "qerIDList")
			}
			return first(x) || first(y)
		})
		r.check(g, rule, w.FuncName(f), "the application QER is the one the PDR lists first", w.Pos(ret.Pos()), "under qerIDList[0] == qer.qerID", "a QER is returned as the PDR's application QER without being the first of its list: when the session QER precedes it in the message UP4 takes gate status, QFI and traffic class from the session QER — a closed application gate forwards")
	}
	r.floor(rule+" successful returns of findRelatedApplicationQER", n, 1)
}

// ruleOneDDNListener: one digest listener, hence one rate limiter, for the life of the agent: the listener is
// started inside initOnce.Do and nowhere else (a listener per reconnect starts with an empty limiter — and
// the old ones keep running).
func ruleOneDDNListener(w *World, r *Report, prop, rule string) {
	n := 0
	for f := range w.allFuncs() {
		f := f
		allInstrs(f, func(i ssa.Instruction) {
			g, ok := i.(*ssa.Go)
			if !ok || staticCallee(g) == nil || staticCallee(g).Name() != "listenToDDNs" {
				return
			}
			n++
			once := false
			if p := f.Parent(); p != nil {
				allInstrs(p, func(j ssa.Instruction) {
					c, ok := j.(ssa.CallInstruction)
					if !ok || !strings.HasSuffix(calleeName(c), "sync.Once).Do") {
						return
					}
					for _, a := range c.Common().Args {
						if closureOf(a) == f {
							once = true
						}
					}
				})
			}
			r.check(once, rule, w.FuncName(f), "the digest listener is started once", w.Pos(g.Pos()), "inside initOnce.Do", "go listenToDDNs outside sync.Once: every (re)initialisation of the P4Runtime connection starts another listener with a rate limiter of its own — a second report for a session within the interval is forwarded after a reconnect")
		})
	}
	r.floor(rule+" starts of the digest listener", n, 1)
}

// ruleReportConnLookedUp: a datapath report is handed to an association that is in pConns at that moment: the
// receiver of handleDigestReport is the value the Range over pConns yields, not something remembered from an
// earlier report (an association that ended and was set up again is a different PFCPConn).
func ruleReportConnLookedUp(w *World, r *Report, prop, rule string) {
	h := w.Fn(prop, "pfcpiface.(*PFCPConn).handleDigestReport")
	n := 0
	for f := range w.allFuncs() {
		f := f
		for _, c := range callsTo(f, h) {
			n++
			recv := c.Common().Args[0]
			good := false
			if ta, ok := recv.(*ssa.TypeAssert); ok {
				if p, ok := ta.X.(*ssa.Parameter); ok && p.Parent() == f && f.Parent() != nil {
					good = true
				}
			}
			if ex, ok := recv.(*ssa.Extract); ok {
				if ta, ok := ex.Tuple.(*ssa.TypeAssert); ok {
					if p, ok := ta.X.(*ssa.Parameter); ok && p.Parent() == f && f.Parent() != nil {
						good = true
					}
				}
			}
			// ... or the callback only notes the value it was offered and the call follows the Range
			if !good {
				good = heldFromRangeNow(f, c, recv)
			}
			r.check(good, rule, w.FuncName(f), "the report goes to an association found in pConns now", w.Pos(c.Pos()), "receiver = value of the Range callback", "handleDigestReport is called on "+symOf(recv).String()+", a connection remembered from earlier: after the association ended and was set up again the reports go to the dead connection, whose store does not know the new sessions — no Session Report Request is sent")
		}
	}
	r.floor(rule+" report dispatch sites", n, 1)
}

// heldFromRangeNow: recv is read from a variable of f that was made for this lookup and holds nothing but
// what the callback of one Range over pConns in f left in it: every write of the variable stores the value
// the callback was offered (type-asserted), the Range is run at most once per instance of the variable — a
// variable that lives across reports (declared outside the loop, a field) keeps an association from an
// earlier report — and the Range has returned on every way to the call.
func heldFromRangeNow(f *ssa.Function, call ssa.CallInstruction, recv ssa.Value) bool {
	u, ok := recv.(*ssa.UnOp)
	if !ok || u.Op != token.MUL {
		return false
	}
	cell, ok := u.X.(*ssa.Alloc)
	if !ok || cell.Parent() != f || cell.Referrers() == nil {
		return false
	}
	// the variable is only read, written, and captured by closures (whose writes storesTo lists)
	for _, ref := range *cell.Referrers() {
		switch x := ref.(type) {
		case *ssa.DebugRef, *ssa.UnOp, *ssa.MakeClosure:
		case *ssa.Store:
			if x.Addr != ssa.Value(cell) {
				return false
			}
		default:
			return false
		}
	}
	var rng ssa.Instruction
	sts := storesTo(cell)
	for _, st := range sts {
		g := st.Parent()
		v := st.Val
		if ex, isEx := v.(*ssa.Extract); isEx {
			v = ex.Tuple
		}
		ta, isTA := v.(*ssa.TypeAssert)
		if !isTA || g == f {
			return false
		}
		if p, isP := ta.X.(*ssa.Parameter); !isP || p.Parent() != g {
			return false
		}
		// g is the callback of a Range over pConns called in f
		var site ssa.Instruction
		for _, rc := range callsIn(f, func(rc ssa.CallInstruction) bool {
			return strings.HasSuffix(calleeName(rc), "sync.Map).Range") && len(rc.Common().Args) == 2
		}) {
			if _, isCall := rc.(*ssa.Call); !isCall {
				continue // go / defer: the Range has not returned when the call is made
			}
			args := rc.Common().Args
			fa, isFA := args[0].(*ssa.FieldAddr)
			if isFA && fieldVar(fa) != nil && fieldVar(fa).Name() == "pConns" && closureOf(args[1]) == g {
				if site != nil {
					return false
				}
				site = rc
			}
		}
		if site == nil || (rng != nil && rng != site) {
			return false
		}
		rng = site
	}
	if rng == nil {
		return false
	}
	again := reach(f, rng, func(i ssa.Instruction) bool { return i == rng }, func(i ssa.Instruction) bool { return i == ssa.Instruction(cell) }, nil) != nil
	return !again && instrDominates(rng, call)
}

// ruleLoopErrorExamined: a datapath write that fails inside a per-rule loop ends the request there: the error
// of the call is looked at before the loop goes round again (an error kept in a variable that the next
// iteration overwrites is lost unless it was the last one — the request is answered "accepted").
func ruleLoopErrorExamined(w *World, r *Report, prop, rule, fname string, callees []string) {
	f := w.Fn(prop, fname)
	n := 0
	for _, c := range callsIn(f, func(c ssa.CallInstruction) bool {
		g := staticCallee(c)
		if g == nil {
			return false
		}
		for _, nm := range callees {
			if g.Name() == nm {
				return true
			}
		}
		return false
	}) {
		call, ok := c.(*ssa.Call)
		if !ok {
			continue
		}
		// inside a loop?
		var hdr *ssa.BasicBlock
		for _, b := range f.Blocks {
			back := false
			for _, p := range b.Preds {
				if b.Dominates(p) {
					back = true
				}
			}
			if back && naturalLoop(b)[call.Block()] && (hdr == nil || naturalLoop(hdr)[b]) {
				hdr = b
			}
		}
		if hdr == nil || len(hdr.Instrs) == 0 {
			continue
		}
		n++
		var errV ssa.Value = call
		if tup, isTuple := call.Type().(*types.Tuple); isTuple {
			errV = extractOf(call, tup.Len()-1)
		}
		tested := func(i ssa.Instruction) bool {
			ifi, ok := i.(*ssa.If)
			if !ok {
				return false
			}
			bo, ok := ifi.Cond.(*ssa.BinOp)
			return ok && (bo.Op == token.NEQ || bo.Op == token.EQL) && ((bo.X == errV && isNilConst(bo.Y)) || (bo.Y == errV && isNilConst(bo.X)))
		}
		first := hdr.Instrs[0]
		hit := reach(f, call, func(i ssa.Instruction) bool { return i == first }, tested, nil)
		r.check(errV != nil && hit == nil, rule, w.FuncName(f), "the error of "+staticCallee(c).Name()+" is examined before the next iteration", w.Pos(call.Pos()), "tested against nil on every way back to the loop head", "the loop goes on to the next rule without looking at the error of "+staticCallee(c).Name()+" (it is kept in a variable the next iteration overwrites): a failure for any rule but the last is forgotten and the request is answered 'accepted'")
	}
	r.floor(rule+" error-returning datapath calls inside loops of "+fname, n, 1)
}

// ruleClearDeletesWhatItRead: the DELETE the agent sends for a leftover entry is the entity the switch
// returned (match key and priority included): an entry rebuilt from parts of it loses the priority, which
// tables with ternary or range fields require to be non-zero.
func ruleClearDeletesWhatItRead(w *World, r *Report, prop, rule string) {
	f := w.Fn(prop, "pfcpiface.(*P4rtClient).ClearTables")
	n := 0
	for _, g := range withClosures(f) {
		allInstrs(g, func(i ssa.Instruction) {
			st, ok := i.(*ssa.Store)
			if !ok {
				return
			}
			fa, ok := st.Addr.(*ssa.FieldAddr)
			if !ok || fieldVar(fa) == nil || fieldVar(fa).Name() != "Entity" || rootTypeName(fa.X.Type()) != "Update" {
				return
			}
			n++
			s := symOf(st.Val).String()
			good := false
			if ld, ok := st.Val.(*ssa.UnOp); ok {
				if ia, ok := ld.X.(*ssa.IndexAddr); ok && strings.Contains(symOf(ia.X).String(), "GetEntities") {
					good = true
				}
			}
			r.check(good, rule, w.FuncName(g), "leftover entries are deleted as they were read", w.Pos(st.Pos()), "Entity ← element of GetEntities()", "the DELETE is sent for "+s+" instead of the entity the switch returned: whatever a rebuilt entry does not copy — the priority — is zero, and a DELETE with priority 0 for a table with ternary or range match fields is malformed")
		})
	}
	r.floor(rule+" updates built in ClearTables", n, 1)
}

// ruleSliceMeterExact: UP4 programs the converted slice rate and burst as they are: the only constant that may
// stand in for them is the largest value the field holds.
func ruleSliceMeterExact(w *World, r *Report, prop, rule string) {
	f := w.Fn(prop, "pfcpiface.(*UP4).AddSliceInfo")
	n := 0
	allInstrs(f, func(i ssa.Instruction) {
		st, ok := i.(*ssa.Store)
		if !ok {
			return
		}
		fa, ok := st.Addr.(*ssa.FieldAddr)
		if !ok || fieldVar(fa) == nil || rootTypeName(fa.X.Type()) != "MeterConfig" {
			return
		}
		name := fieldVar(fa).Name()
		if name != "Pir" && name != "Pburst" {
			return
		}
		n++
		seen := map[ssa.Value]bool{}
		var badK *int64
		var walk func(v ssa.Value)
		walk = func(v ssa.Value) {
			if seen[v] {
				return
			}
			seen[v] = true
			switch x := v.(type) {
			case *ssa.Phi:
				for _, e := range x.Edges {
					walk(e)
				}
			case *ssa.Convert:
				walk(x.X)
			case *ssa.Const:
				if k, isK := constInt(x); isK && k != 9223372036854775807 && k != 0 {
					badK = &k
				}
			}
		}
		walk(st.Val)
		msg := ""
		if badK != nil {
			msg = fmt.Sprintf("%s can be the constant %d instead of the converted value: a slice rate or burst above it is programmed as %d while the request is answered 201", name, *badK, *badK)
		}
		r.check(badK == nil, rule, w.FuncName(f), name+" is the converted value", w.Pos(st.Pos()), "no smaller constant stands in for it", msg)
	})
	r.floor(rule+" peak fields of the UP4 slice meter", n, 2)
}

// ruleUpdateKeepsCells: while a modification can still be refused the session's installed entries name its
// meter and counter cells: sendUpdate gives none of them back before modifyUP4ForwardingConfiguration
// returned without error (a cell in the free pool that an installed entry still uses gets a second owner).
func ruleUpdateKeepsCells(w *World, r *Report, prop, rule string) {
	f := w.Fn(prop, "pfcpiface.(*UP4).sendUpdate")
	mod := w.Fn(prop, "pfcpiface.(*UP4).modifyUP4ForwardingConfiguration")
	var releases []*ssa.Function
	for _, nm := range []string{"releaseAppMeterCellID", "releaseSessionMeterCellID", "releaseCounterID"} {
		releases = append(releases, w.Fn(prop, "pfcpiface.(*UP4)."+nm))
	}
	mods := callsTo(f, mod)
	r.floor(rule+" table writes in sendUpdate", len(mods), 1)
	n := 0
	for _, c := range callsIn(f, func(c ssa.CallInstruction) bool { return staticCallee(c) != nil }) {
		callee := staticCallee(c)
		reachable := w.CG().Reachable([]*ssa.Function{callee}, nil)
		hits := ""
		for _, rel := range releases {
			if reachable[rel] || callee == rel {
				hits = rel.Name()
			}
		}
		if hits == "" {
			continue
		}
		n++
		site := c.(ssa.Instruction)
		good := false
		for _, m := range mods {
			mc, ok := m.(*ssa.Call)
			if ok && instrDominates(mc, site) && errGuarded(f, mc, mc, func(i ssa.Instruction) bool { return i == site }) {
				good = true
			}
		}
		r.check(good, rule, w.FuncName(f), "cells are given back only after the modification was written", w.Pos(c.Pos()), "behind modifyUP4ForwardingConfiguration() == nil", callee.Name()+" (which reaches "+hits+") runs before the modification is known to be accepted: when a write of the request fails it is refused, but the session's installed entries still name cells that are already back in the pool — after further attaches such a cell has two owners")
	}
	r.Extra[rule+"_release_reaching_calls_in_sendUpdate"] = n
}
