package main

// Rules added after the fifth round of seeded changes. Each is a structural necessary condition of the
// property it is filed under (and re-filed, under a rule number of its own, where a second property needs it).

import (
	"fmt"
	"go/token"
	"go/types"
	"strings"

	"golang.org/x/tools/go/ssa"
)

// ruleLocalSEIDArgs: every rule of a session is parsed, stored and programmed under the session's UP SEID —
// the key the other rules of the session are looked up by (a PDR finds its FAR under (FAR ID, F-SEID)). In
// the two handlers the SEID argument of parsePDR/parseFAR/parseQER is the session's localSEID or the SEID the
// session was looked up by.
func ruleLocalSEIDArgs(w *World, r *Report, prop, rule string) {
	n := 0
	for _, hn := range []string{"pfcpiface.(*PFCPConn).handleSessionEstablishmentRequest", "pfcpiface.(*PFCPConn).handleSessionModificationRequest"} {
		h := w.Fn(prop, hn)
		var lookupKeys []ssa.Value
		allInstrs(h, func(i ssa.Instruction) {
			if c, ok := i.(*ssa.Call); ok && c.Call.IsInvoke() && c.Call.Method.Name() == "GetSession" && len(c.Call.Args) == 1 {
				lookupKeys = append(lookupKeys, c.Call.Args[0])
			}
		})
		for _, pn := range []string{"pfcpiface.(*pdr).parsePDR", "pfcpiface.(*far).parseFAR", "pfcpiface.(*qer).parseQER"} {
			pf := w.Fn(prop, pn)
			for k, c := range callsTo(h, pf) {
				n++
				arg := c.Common().Args[2]
				good := false
				for _, lk := range lookupKeys {
					if arg == lk {
						good = true
					}
				}
				s := symOf(arg).String()
				if strings.HasSuffix(s, ".localSEID") {
					good = true
				}
				r.check(good, rule, hn, fmt.Sprintf("%s call #%d files the rule under the session's UP SEID", pf.Name(), k+1), w.Pos(c.Pos()), s, "the rule is parsed with SEID "+s+": it is stored and programmed under a key the session's other rules do not use (its PDR→FAR/QER look-ups miss, and they can hit the rules of whichever session owns that SEID)")
			}
		}
	}
	r.floor(rule+" parse calls in the session handlers", n, 9)
}

// ruleEveryChooseGetsTEID: a PDR whose F-TEID the CP function left to the UP (CHOOSE) gets one, whatever its
// interface: from the true edge of p.UPAllocateFteid every path to session.CreatePDR runs Allocate.
func ruleEveryChooseGetsTEID(w *World, r *Report, prop, rule string) {
	h := w.Fn(prop, "pfcpiface.(*PFCPConn).handleSessionEstablishmentRequest")
	hn := w.FuncName(h)
	create := w.Fn(prop, "pfcpiface.(*PFCPSession).CreatePDR")
	alloc := w.Fn(prop, "pfcpiface.(*FTEIDGenerator).Allocate")
	n := 0
	for _, b := range h.Blocks {
		for _, sc := range b.Succs {
			v, truth, ok := boolEdge(b, sc)
			if !ok || !truth || len(sc.Instrs) == 0 {
				continue
			}
			ld, isLoad := v.(*ssa.UnOp)
			if !isLoad {
				continue
			}
			fa, isFA := ld.X.(*ssa.FieldAddr)
			if !isFA || fieldVar(fa) == nil || fieldVar(fa).Name() != "UPAllocateFteid" {
				continue
			}
			n++
			first := sc.Instrs[0]
			isAlloc := func(i ssa.Instruction) bool { return isCallTo(i, alloc) }
			isCreate := func(i ssa.Instruction) bool { return isCallTo(i, create) }
			miss := reach(h, first, isCreate, isAlloc, nil)
			if isAlloc(first) {
				miss = nil
			}
			r.check(miss == nil, rule, hn, "a CHOOSE F-TEID is allocated whatever else holds for the PDR", w.Pos(first.Pos()), "Allocate on every path from UPAllocateFteid to CreatePDR", "a PDR that asks the UP to choose its F-TEID can be stored without one (a further condition stands between the flag and the allocation): the response reports TEID 0 as chosen — shared by every such PDR — and the datapath rule matches TEID 0 / mask 0")
		}
	}
	r.floor(rule+" tests of UPAllocateFteid in the establishment handler", n, 1)
}

// ruleProductStartsEmpty: the rules of a port pair are exactly the appended ones: a result slice that grows by
// append starts with length 0 (a slice made with a length holds that many all-zero rules — any port, mask 0 —
// in front of the real ones).
func ruleProductStartsEmpty(w *World, r *Report, prop, rule string) {
	cart := w.Fn(prop, "pfcpiface.CreatePortRangeCartesianProduct")
	n := 0
	allInstrs(cart, func(i ssa.Instruction) {
		c, ok := i.(*ssa.Call)
		if !ok || calleeName(c) != "builtin.append" {
			return
		}
		n++
		seen := map[ssa.Value]bool{}
		var bad ssa.Value
		var walk func(v ssa.Value)
		walk = func(v ssa.Value) {
			if seen[v] || bad != nil {
				return
			}
			seen[v] = true
			switch x := v.(type) {
			case *ssa.Phi:
				for _, e := range x.Edges {
					walk(e)
				}
			case *ssa.Call:
				if calleeName(x) == "builtin.append" {
					walk(x.Call.Args[0])
					return
				}
				bad = v
			case *ssa.MakeSlice:
				if k, isK := constInt(x.Len); !isK || k != 0 {
					bad = v
				}
			case *ssa.Const:
				if !x.IsNil() {
					bad = v
				}
			case *ssa.Slice:
				// s[:0]
				if k, isK := constInt(x.High); x.High != nil && isK && k == 0 {
					return
				}
				bad = v
			default:
				bad = v
			}
		}
		walk(c.Call.Args[0])
		r.check(bad == nil, rule, w.FuncName(cart), "the result grows from an empty slice", w.Pos(c.Pos()), "nil / make(…, 0, n)", "the slice the rules are appended to starts as "+symOf(bad).String()+": its initial elements are all-zero rules (any source port, any destination port) that precede the real ones — the pair matches every port")
	})
	r.floor(rule+" appends in the Cartesian product", n, 1)
}

// ruleNoDurationSquared: a time.Duration is already a number of nanoseconds; multiplying one by a unit
// (timeout * time.Millisecond) scales it a second time — a one-second wait becomes eleven days and the
// receive loop that waits for it is wedged.
func ruleNoDurationSquared(w *World, r *Report, rule string, funcs map[*ssa.Function]bool) {
	isDur := func(t types.Type) bool {
		n, ok := t.(*types.Named)
		return ok && n.Obj().Pkg() != nil && n.Obj().Pkg().Path() == "time" && n.Obj().Name() == "Duration"
	}
	n := 0
	for _, f := range sortedFuncs(w, funcs) {
		allInstrs(f, func(i ssa.Instruction) {
			bo, ok := i.(*ssa.BinOp)
			if !ok || bo.Op != token.MUL || !isDur(bo.Type()) {
				return
			}
			n++
			// a count times a unit: one side is a constant or a conversion from a plain number
			count := func(v ssa.Value) bool {
				if cv, ok := v.(*ssa.Convert); ok {
					return !isDur(cv.X.Type())
				}
				return false
			}
			_, kx := bo.X.(*ssa.Const)
			_, ky := bo.Y.(*ssa.Const)
			good := count(bo.X) || count(bo.Y) || (kx && ky)
			// duration-valued variable × constant: fine only when the constant is a plain factor, which the type
			// system cannot tell from a unit; accept small factors
			if !good {
				for _, side := range []ssa.Value{bo.X, bo.Y} {
					if k, isK := constInt(side); isK && k > 0 && k < 1000 {
						good = true
					}
				}
			}
			r.check(good, rule, w.FuncName(f), "a duration is not scaled by a unit twice", w.Pos(bo.Pos()), "count × unit", "a time.Duration value is multiplied by a time unit: it already is a duration, the product is a million (or a billion) times longer — the wait never ends within the life of the association")
		})
	}
	r.Extra[rule+"_duration_products"] = n
}

// ruleCounterAlwaysReleased: releaseCounterID puts the cell back whatever its number (the counter pool, unlike
// the meter pools, starts at cell 0).
func ruleCounterAlwaysReleased(w *World, r *Report, prop, rule string) {
	f := w.Fn(prop, "pfcpiface.(*UP4).releaseCounterID")
	isAdd := func(i ssa.Instruction) bool {
		c, ok := i.(ssa.CallInstruction)
		return ok && c.Common().IsInvoke() && c.Common().Method.Name() == "Add" && strings.Contains(symOf(c.Common().Value).String(), "counterIDsPool")
	}
	miss := mustPass(f, nil, isReturn, isAdd)
	pos := w.Pos(f.Pos())
	if miss != nil {
		pos = w.Pos(miss.Pos())
	}
	r.check(miss == nil, rule, w.FuncName(f), "a released counter cell goes back to the pool on every path", pos, "counterIDsPool.Add on every path", "releaseCounterID can return without putting the cell back (a guard on the cell number: the counter pool starts at 0, cell 0 is a cell like any other): each such release loses the cell for good, and a full-load round later an establishment is refused")
	// the pool's lower end, for the record: initCounter fills it from 0
}

// ruleNoSessionQerWithoutAll: a QER is the session's limiter only if every PDR references it: once the
// intersection with one PDR's list is empty nothing is labelled.
func ruleNoSessionQerWithoutAll(w *World, r *Report, prop, rule string) {
	f := w.Fn(prop, "pfcpiface.(*PFCPSession).MarkSessionQer")
	fn := w.FuncName(f)
	n := 0
	isLabel := func(i ssa.Instruction) bool {
		st, ok := i.(*ssa.Store)
		if !ok {
			return false
		}
		fa, ok := st.Addr.(*ssa.FieldAddr)
		return ok && fieldVar(fa) != nil && fieldVar(fa).Name() == "qosLevel"
	}
	for _, b := range f.Blocks {
		for _, sc := range b.Succs {
			x, op, y, ok := edgeFact(b, sc)
			if !ok || op != token.EQL {
				continue
			}
			k, isK := constInt(y)
			lc, isLen := x.(*ssa.Call)
			if !isK || k != 0 || !isLen || calleeName(lc) != "builtin.len" {
				continue
			}
			ic, isCall := lc.Call.Args[0].(*ssa.Call)
			if !isCall || staticCallee(ic) == nil || staticCallee(ic).Name() != "Intersect" || len(sc.Instrs) == 0 {
				continue
			}
			n++
			hit := reach(f, sc.Instrs[0], isLabel, nil, nil)
			if isLabel(sc.Instrs[0]) {
				hit = sc.Instrs[0]
			}
			r.check(hit == nil, rule, fn, "a PDR that shares no QER with the others ends the search", w.Pos(sc.Instrs[0].Pos()), "no label reachable from the empty intersection", "with one PDR's QER list disjoint from the candidates the search goes on and a QER is labelled session-wide although that PDR does not reference it: on BESS it polices that PDR's traffic as well (the session QER table is keyed by F-SEID and direction only)")
		}
	}
	r.floor(rule+" empty-intersection tests", n, 1)
}

// rulePFDLoopExits: an accepted PFD Management Request provisions every application and every PFD it carries:
// the loops over the request are left early only towards a rejecting reply.
func rulePFDLoopExits(w *World, r *Report, prop, rule string) {
	h := w.Fn(prop, "pfcpiface.(*PFCPConn).handlePFDMgmtRequest")
	hn := w.FuncName(h)
	accepted := successReturns(h)
	n := 0
	seen := map[*ssa.BasicBlock]bool{}
	for _, hdr := range h.Blocks {
		isLoop := false
		for _, p := range hdr.Preds {
			if hdr.Dominates(p) {
				isLoop = true
			}
		}
		if !isLoop || seen[hdr] {
			continue
		}
		seen[hdr] = true
		n++
		body := naturalLoop(hdr)
		for _, b := range h.Blocks {
			if !body[b] || b == hdr {
				continue
			}
			for _, sc := range b.Succs {
				if body[sc] || len(sc.Instrs) == 0 {
					continue
				}
				hit := reach(h, sc.Instrs[0], accepted, nil, nil)
				if accepted(sc.Instrs[0]) {
					hit = sc.Instrs[0]
				}
				r.check(hit == nil, rule, hn, "the loops over the request are left early only to refuse it", w.Pos(b.Instrs[len(b.Instrs)-1].Pos()), "every early exit ends in a rejecting reply", "a loop over the request's applications / PFD contents can be left early (break) and the request is still answered 'accepted': the elements that were not visited are silently dropped — a PDR naming the application matches on less than was provisioned")
			}
		}
	}
	r.floor(rule+" loops in the PFD handler", n, 2)
}

// naturalLoop: the blocks of the natural loop of hdr — hdr and everything that reaches one of its back-edge
// sources without passing through hdr.
func naturalLoop(hdr *ssa.BasicBlock) map[*ssa.BasicBlock]bool {
	body := map[*ssa.BasicBlock]bool{hdr: true}
	var work []*ssa.BasicBlock
	for _, p := range hdr.Preds {
		if hdr.Dominates(p) && !body[p] {
			body[p] = true
			work = append(work, p)
		}
	}
	for len(work) > 0 {
		b := work[len(work)-1]
		work = work[:len(work)-1]
		for _, p := range b.Preds {
			if !body[p] {
				body[p] = true
				work = append(work, p)
			}
		}
	}
	return body
}
