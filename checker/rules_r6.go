package main

// Round 6: rules added (and existing rules filed under further properties) in response to the sixth
// round of seeded changes. round6 is called at the end of every property's rule set.

import (
	"fmt"
	"go/token"
	"go/types"
	"strings"

	"golang.org/x/tools/go/ssa"
)

// withOnly runs fn, keeps of what it added only the obligations (and their violations) for which keep
// holds, and files them under rule `as` (see withRule). Used to file ONE clause of a larger rule set
// under another property it is a necessary condition of.
func (r *Report) withOnly(as string, keep func(o Obligation) bool, fn func()) {
	o0, v0 := len(r.Obls), len(r.Viol)
	fl := len(r.floors)
	// a whole rule set may be run for one clause: what it says about itself belongs to its own property
	expl, nd, asm := r.Explanation, r.NotDecided, r.Assumptions
	fn()
	r.Explanation, r.NotDecided, r.Assumptions = expl, nd, asm
	r.floors = r.floors[:fl]
	kept := r.Obls[:o0:o0]
	keepKey := map[string]bool{}
	for _, o := range r.Obls[o0:] {
		if keep(o) {
			keepKey[o.Rule+"|"+o.Func+"|"+o.Construct] = true
			o.Construct = "[" + o.Rule + "] " + o.Construct
			o.Rule = as
			kept = append(kept, o)
		}
	}
	r.Obls = kept
	viol := r.Viol[:v0:v0]
	for _, v := range r.Viol[v0:] {
		if keepKey[v.Rule+"|"+v.Func+"|"+v.Construct] {
			v.Construct = "[" + v.Rule + "] " + v.Construct
			v.Rule = as
			v.Key = strings.Join([]string{r.Prop, as, v.Func, v.Construct}, "|")
			viol = append(viol, v)
		}
	}
	r.Viol = viol
}

func onlyRule(rules ...string) func(Obligation) bool {
	return func(o Obligation) bool {
		for _, x := range rules {
			if o.Rule == x {
				return true
			}
		}
		return false
	}
}

// sharedObjectTypes: objects one instance of which serves every association.
var sharedObjectTypes = map[string]bool{"UP4": true, "bess": true, "IPPool": true, "FTEIDGenerator": true, "P4rtClient": true, "P4rtTranslator": true, "Service": true, "upf": true, "downlinkDataNotifier": true}

func round6(w *World, r *Report) {
	switch r.Prop {
	case "C02":
		ruleNoRelock(w, r, "R02.15")
		r.withOnly("R02.16", func(o Obligation) bool { return o.Rule == "R10.5" && strings.Contains(o.Construct, "release") }, func() { ruleC10Triggers(w, r) })
		// R02.12 a later response is addressed with the CP SEID the store holds: an accepted request has stored
		// the session (C03 R03.6: the store is written on every accepting path and after the datapath writes)
		r.withOnly("R02.12", onlyRule("R03.6"), func() { ruleC03Handlers(w, r) })
		r.Explanation += " R02.12 every accepting path of establishment and modification has stored the session (what later responses are addressed from; C03 R03.6 re-filed);"
		ruleFirstMessageAnyType(w, r, "C02", "R02.13")
		rulePeerKeyIsSourceAddr(w, r, "C02", "R02.14")
	case "C03":
		ruleReleaseReadsOnly(w, r, "C03", "R03.20")
		ruleSessionQerMovedNotSwapped(w, r, "C03", "R03.21")
		ruleCommandMatchesModule(w, r, "C03", "R03.19")
		// R03.17 every QER has one uplink and one downlink entry with the gate its own direction's status gives
		r.withOnly("R03.17", onlyRule("R09.2"), func() { ruleC09(w, r) })
		r.Explanation += " R03.17 gate decision table per direction of the BESS QER entries (C09 R09.2 re-filed);"
		ruleWidthLimitIsExclusiveOf100(w, r, "C03", "R03.18")
	case "C04":
		ruleDeleteGetsTheRules(w, r, "C04", "R04.21")
		ruleReservedIDNotPooled(w, r, "C04", "R04.22")
		r.withRule("R04.20", func() { ruleC05Complete(w, r) })
		r.withRule("R04.16", func() { ruleC07EverySessionsEntry(w, r) })
		r.withRule("R04.17", func() { ruleC09MeterArray(w, r) })
		r.withRule("R04.18", func() { ruleC06SeidEntropy(w, r) })
		ruleOwnReferenceDroppedFirst(w, r, "C04", "R04.19")
		r.Explanation += " R04.16 the sessions entry of every PDR is part of its batch (C07 R07.11); R04.17 meters are programmed and reset in the array of their kind (C09 R09.9); R04.18 UP4 state is keyed by F-SEID: two associations never draw the same SEID sequence (C06 R06.7);"
	case "C06":
		ruleCreateOnlyAppends(w, r, "C06", "R06.13")
		rulePoolArgIsThePool(w, r, "C06", "R06.14")
		ruleNoRelock(w, r, "R06.12")
		r.withOnly("R06.9", onlyRule("R01.J5"), func() { ruleC01Secondary(w, r) })
		ruleLocalSEIDArgs(w, r, "C06", "R06.10")
		ruleReleaseOncePerSession(w, r, "C06", "R06.11")
		r.Explanation += " R06.9 the allocation mark of a stored PDR is set exactly where the pool allocated (C01 R01.J5); R06.10 the pool is keyed by the UP SEID at every parse site (C03 R03.16); R06.11 the session-end release calls DeallocIP at most once per session;"
	case "C07":
		r.withOnly("R07.15", onlyRule("R05.2"), func() { ruleC05(w, r) })
		r.withOnly("R07.16", func(o Obligation) bool { return o.Rule == "R02.1" && strings.Contains(o.Func, "Establishment") }, func() { ruleC02(w, r) })
		r.withOnly("R07.14", func(o Obligation) bool { return o.Rule == "R02.4" && strings.Contains(o.Construct, "F-SEID") }, func() {
			ruleC02AcceptedStandalone(w, r)
		})
		r.Explanation += " R07.14 the UP F-SEID reported in the accepted establishment is session.localSEID (C02 R02.4);"
	case "C08":
		ruleReservedIDNotPooled(w, r, "C08", "R08.14")
		ruleOwnReferenceDroppedFirst(w, r, "C08", "R08.15")
		r.withRule("R08.13", func() { ruleC17DoneOnce(w, r) })
		r.withRule("R08.10", func() { ruleC03Scratch(w, r) })
		r.Explanation += " R08.10 every Create/Update PDR is parsed into a value of its own (no filter field carried over from the previous IE; C03 R03.10);"
		rulePortsKeptForEveryProtocol(w, r, "C08", "R08.11")
		ruleNewAppPFDIsFresh(w, r, "C08", "R08.12")
	case "C10":
		ruleNilResultChecked(w, r, "R10.20", receivePathFuncs(w, "C10"))
		ruleWorkerAlwaysReports(w, r, "C10", "R10.19")
		ruleNoRelock(w, r, "R10.18")
		r.withOnly("R10.16", onlyRule("R05.2"), func() { ruleC05(w, r) })
		ruleOnlyReadDeadline(w, r, "C10", "R10.17")
		ruleHandledOnReader(w, r, "C10", "R10.15")
		r.Explanation += " R10.15 the reader handles each message itself (a release cannot overtake a request in flight on the same association); R10.16 every session-ending site removes the datapath entries unconditionally and releases what the session holds (C05 R05.2); R10.17 only the reader's read deadline decides that a peer went silent (C02 R02.11);"
	case "C11":
		ruleNoLockHeldAcrossIteration(w, r, "R11.19")
		ruleWorkerAlwaysReports(w, r, "C11", "R11.20")
		r.withOnly("R11.18", func(o Obligation) bool { return o.Rule == "R14.5" && strings.Contains(o.Construct, "buffer created by this call") }, func() { ruleC14(w, r) })
		// R11.15: a panic in code that operates on an object shared by every association ends all of them
		{
			all := receivePathFuncs(w, "C11")
			sub := map[*ssa.Function]bool{}
			for f := range all {
				root := f
				for root.Parent() != nil {
					root = root.Parent()
				}
				if root.Signature.Recv() != nil && sharedObjectTypes[rootTypeName(root.Signature.Recv().Type())] {
					sub[f] = true
				}
			}
			eng := newEngine(w, r, "R11.15", all)
			for _, f := range sortedFuncs(w, sub) {
				eng.idx(f)
				eng.nilObls(f)
				eng.taObls(f)
				eng.exitObls(f)
				eng.divObls(f)
			}
			r.floor("R11.15 methods of shared objects on the receive path", len(sub), 60)
		}
		r.withOnly("R11.16", onlyRule("R05.2"), func() { ruleC05(w, r) })
		ruleNoCloseOfWorkerChannel(w, r, "R11.17")
		r.Explanation += " R11.15 crash obligations (index, nil, type assertion, exit, division) of every method of a shared object reachable from the receive path (C01 R01.1 restricted to UP4, bess, IPPool, FTEIDGenerator, P4rtClient, P4rtTranslator, metrics.Service, upf); R11.16 an ending association returns what it holds in the shared pools on every path (C05 R05.2);"
	case "C12":
		ruleTimersAsConfigured(w, r, "C12", "R12.9")
		r.Explanation += " R12.9 resp_timeout and heart_beat_interval are used exactly as parsed;"
	case "C13":
		ruleStoredIsHandedOn(w, r, "C13", "R13.18")
		ruleNoLockHeldAcrossIteration(w, r, "R13.17")
		r.withRule("R13.15", func() { ruleC04Shared(w, r) })
		r.withOnly("R13.16", onlyRule("R03.6"), func() { ruleC03Handlers(w, r) })
		r.withRule("R13.12", func() { ruleC07SEID(w, r) })
		r.withRule("R13.13", func() { ruleC05Complete(w, r) })
		ruleApplyActionFirstOctet(w, r, "C13", "R13.14")
		r.Explanation += " R13.12 the limiter's key is the UP SEID: it is drawn from the connection's random generator and tested against the store (C07 R07.5); R13.13 the session copy the report handler reads holds every rule (C05 R05.6); R13.14 the apply-action flags are those of the IE's first octet;"
	case "C14":
		ruleSenderUsesCurrentClient(w, r, "C14", "R14.15")
		r.withOnly("R14.14", onlyRule("R15.4"), func() { ruleC15(w, r) })
		ruleDeadlinePerOp(w, r, "C14", "R14.12", []string{"pfcpiface.(*bess).endMarkerSendLoop"})
		ruleSndemIndependentOfOrder(w, r, "C14", "R14.13")
		r.Explanation += " R14.12 a deadline on the end-marker socket is armed per write, never once before the loop; R14.13 the send-end-marker flag depends on the SNDEM bit alone, not on which IEs were seen before it;"
	case "C15":
		ruleEveryFarRegistersItsPeer(w, r, "C15", "R15.13")
		r.withRule("R15.11", func() { ruleC06SeidEntropy(w, r) })
		ruleReleaseOncePerSession(w, r, "C15", "R15.12")
		r.withOnly("R15.8", onlyRule("R03.6"), func() { ruleC03Handlers(w, r) })
		r.withRule("R15.9", func() { ruleC05Complete(w, r) })
		ruleOwnReferenceDroppedFirst(w, r, "C15", "R15.10")
		r.Explanation += " R15.8 a request one of whose datapath writes was rejected is never accepted, the store is written after both writes (C03 R03.6); R15.9 a removed rule is handed to the datapath as a copy of itself (C05 R05.6);"
	case "C16":
		r.withOnly("R16.14", func(o Obligation) bool { return o.Rule == "R19.3" && strings.Contains(o.Func, "AddSliceInfo") }, func() { ruleC19(w, r) })
		r.withOnly("R16.12", func(o Obligation) bool {
			return o.Rule == "R15.1" && !strings.Contains(o.Construct, "new PDRs get a counter cell")
		}, func() { ruleC15(w, r) })
		r.withRule("R16.13", func() { ruleC09MeterArray(w, r) })
		r.Explanation += " R16.12 only values that came out of a pool go back into it (indices stay inside the array the pool was sized for; C15 R15.1); R16.13 a meter entry is written to the array its cell index belongs to (C09 R09.9);"
	case "C01":
		ruleHelperLoopNeedsItsSocket(w, r, "C01", "R01.8")
		ruleNilResultChecked(w, r, "R01.1.NILRES", receivePathFuncs(w, "C01"))
		r.withOnly("R01.2.UNLOCK", onlyRule("R11.2"), func() { ruleC11(w, r) })
		funcs := receivePathFuncs(w, "C01")
		ruleTickerIntervalPositive(w, r, "R01.1.TICK", funcs)
		ruleNoCloseOfWorkerChannel(w, r, "R01.1.CLOSE")
		r.Explanation += " R01.1.TICK no ticker interval is computed as a difference with elapsed time (NewTicker/Reset panic on ≤ 0); R01.1.CLOSE a completion channel that started workers send on is never closed by the function that waits for them;"
	case "C09":
		ruleSessionQerMovedNotSwapped(w, r, "C09", "R09.16")
		r.withRule("R09.15", func() { ruleC05Complete(w, r) })
		ruleStoredPdrSharesQerList(w, r, "C09", "R09.13")
		ruleOneSessionQerLabel(w, r, "C09", "R09.14")
		r.Explanation += " R09.13 the stored PDR shares its QER ID list with the PDR that is programmed (MarkSessionQer re-orders in place); R09.14 the session label is written once, outside the search loop;"
	case "C17":
		ruleExpansionOnlyRead(w, r, "C17", "R17.17")
		ruleEveryRuleOfTheExpansionProcessed(w, r, "C17", "R17.18")
		ruleTranslatorBytes(w, r, "C17", "R17.16")
		ruleOwnReferenceDroppedFirst(w, r, "C17", "R17.14")
		ruleWidthLimitIsExclusiveOf100(w, r, "C17", "R17.15")
		r.Explanation += " R17.14 the users of a shared application entry are counted after the caller's own reference was dropped (a repeated delete cannot take another PDR's port-range entry away); R17.15 a range of exactly 100 ports is still expanded;"
	case "C18":
		ruleCommentsAlwaysStripped(w, r, "C18", "R18.9")
		ruleEveryPeerParsed(w, r, "C18", "R18.10")
		r.Explanation += " R18.9 every path of removeComments returns the pattern's ReplaceAll of the input; R18.10 the peer parsed in validateConf's loop is the element of the iteration;"
	case "C19":
		{
			// R19.10: the handler cannot panic on a well-formed document (net/http recovers the panic and drops
			// the connection: no response at all): index / nil / assertion obligations over the handler's tree
			roots := []*ssa.Function{w.Fn("C19", "pfcpiface.(*ConfigHandler).ServeHTTP")}
			fs := map[*ssa.Function]bool{}
			for f := range w.CG().Reachable(roots, func(e *Edge) bool { return e.Kind != "go" }) {
				if w.isRepoFunc(f) && f.Pkg != nil && f.Pkg.Pkg.Path() == pfcpPkg {
					if rt := ""; f.Signature.Recv() != nil {
						rt = rootTypeName(f.Signature.Recv().Type())
						if rt == "UP4" || rt == "bess" || rt == "P4rtClient" || rt == "P4rtTranslator" {
							continue // the datapath plug-ins' own obligations are C11 R11.15 / C16
						}
					}
					fs[f] = true
				}
			}
			o0, v0 := len(r.Obls), len(r.Viol)
			eng := newEngine(w, r, "R19.10", fs)
			params := map[string][]string{}
			for _, f := range sortedFuncs(w, fs) {
				eng.idx(f)
				eng.taObls(f)
				eng.divObls(f)
				for _, p := range f.Params {
					params[w.FuncName(f)] = append(params[w.FuncName(f)], p.Name())
				}
			}
			// what is claimed is about the POSTED DOCUMENT: index operations on what the function was handed
			// (the decoded document and what hangs off it). Indexing of lists the handler builds itself is
			// the bounds engine's general business (C01), not this rule's.
			onInput := func(fn, construct string) bool {
				for _, p := range params[fn] {
					if p != "" && strings.Contains(construct, p+".") || strings.Contains(construct, p+"[") {
						return true
					}
				}
				return !strings.Contains(construct, "[") // assertions, divisions
			}
			kept := r.Obls[:o0:o0]
			for _, o := range r.Obls[o0:] {
				if onInput(o.Func, o.Construct) {
					kept = append(kept, o)
				}
			}
			r.Obls = kept
			viol := r.Viol[:v0:v0]
			for _, v := range r.Viol[v0:] {
				if onInput(v.Func, v.Construct) {
					viol = append(viol, v)
				}
			}
			r.Viol = viol
			r.floor("R19.10 functions of the REST handler", len(fs), 3)
		}
		ruleNoRelock(w, r, "R19.9")
		ruleSliceMeterJoinCount(w, r, "C19", "R19.8")
		r.Explanation += " R19.8 every caller of addSliceMeter joins as many completions as it starts workers; R19.10 index / assertion / division obligations on what the REST handler's functions are handed (the decoded document);"
	case "C05":
		ruleGaugeCountedBeforeAbort(w, r, "C05", "R05.24")
		ruleDeleteGetsTheRules(w, r, "C05", "R05.25")
		ruleReleaseReadsOnly(w, r, "C05", "R05.26")
		ruleNoRelock(w, r, "R05.23")
		ruleTeidReleasedUnderItsMark(w, r, "C05", "R05.20")
		ruleCreateWritesThroughStoredRules(w, r, "C05", "R05.21")
		ruleCommandMatchesModule(w, r, "C05", "R05.22")
		r.Explanation += " R05.20 a TEID is freed for every PDR that carries the allocation mark, whatever its interface; R05.21 UP4 records the counter cells in the session's own rule set (the create write is given session.PacketForwardingRules, not a copy); R05.22 every BESS module command is a message of that module's kind (a delete of the wrong kind is refused by BESS and only logged);"
	}
}

// ruleC02AcceptedStandalone runs C02's accepted-establishment rule outside ruleC02.
func ruleC02AcceptedStandalone(w *World, r *Report) {
	handlers := map[string]*ssa.Function{}
	for _, n := range []string{"SessionEstablishmentRequest", "SessionModificationRequest", "SessionDeletionRequest"} {
		handlers[n] = w.Fn(r.Prop, "pfcpiface.(*PFCPConn).handle"+n)
	}
	ruleC02Accepted(w, r, handlers, causeAcceptedConst(w, r.Prop))
}

// ruleHandledOnReader: the goroutine that reads an association's socket calls HandlePFCPMsg itself. Handing
// the message to a goroutine of its own lets an Association Release (or the read time-out) overtake a
// Session Establishment that is still in its datapath write: the teardown takes its snapshot of the
// store before the session is put there and the session is never removed from the datapath.
func ruleHandledOnReader(w *World, r *Report, prop, rule string) {
	h := w.Fn(prop, "pfcpiface.(*PFCPConn).HandlePFCPMsg")
	n := 0
	for f := range w.allFuncs() {
		if !w.isRepoFunc(f) || strings.HasPrefix(w.FuncName(f), "test/") {
			continue
		}
		f := f
		allInstrs(f, func(i ssa.Instruction) {
			switch c := i.(type) {
			case *ssa.Go:
				if staticCallee(c) == h || goesTo(c, h) {
					n++
					r.bad(rule, w.FuncName(f), "a received message is handled on the goroutine that read it", w.Pos(c.Pos()), "HandlePFCPMsg is started as a goroutine: the messages of one association are processed concurrently with each other and with the association's teardown")
				}
			case *ssa.Call:
				if staticCallee(c) == h {
					n++
					r.ok(rule, w.FuncName(f), "a received message is handled on the goroutine that read it", w.Pos(c.Pos()), "plain call")
				}
			}
		})
	}
	r.floor(rule+" calls of HandlePFCPMsg", n, 2)
}

// goesTo: the go statement starts a closure / bound method whose body is only a call of target.
func goesTo(g *ssa.Go, target *ssa.Function) bool {
	var fn *ssa.Function
	switch v := g.Call.Value.(type) {
	case *ssa.MakeClosure:
		fn, _ = v.Fn.(*ssa.Function)
	case *ssa.Function:
		fn = v
	}
	if fn == nil {
		return false
	}
	if fn == target {
		return true
	}
	hit := false
	allInstrs(fn, func(i ssa.Instruction) {
		if c, ok := i.(ssa.CallInstruction); ok && staticCallee(c) == target {
			hit = true
		}
	})
	return hit && len(fn.Blocks) <= 2
}

// ruleDeadlinePerOp: a deadline of a connection is an absolute point in time. A function that writes to
// (reads from) a socket in a loop and bounds those operations has to arm the deadline inside the loop;
// armed once before it, every operation after that instant fails.
func ruleDeadlinePerOp(w *World, r *Report, prop, rule string, fnames []string) {
	for _, name := range fnames {
		f := w.Fn(prop, name)
		var sets []ssa.CallInstruction
		var ops []ssa.CallInstruction
		for _, g := range withClosures(f) {
			allInstrs(g, func(i ssa.Instruction) {
				c, ok := i.(ssa.CallInstruction)
				if !ok {
					return
				}
				n := ""
				if c.Common().IsInvoke() {
					n = c.Common().Method.Name()
				} else if cal := c.Common().StaticCallee(); cal != nil && cal.Signature.Recv() != nil {
					n = cal.Name()
				}
				switch n {
				case "SetDeadline", "SetWriteDeadline", "SetReadDeadline":
					sets = append(sets, c)
				case "Write", "Read":
					ops = append(ops, c)
				}
			})
		}
		r.floor(rule+" socket operations in "+name, len(ops), 1)
		if len(sets) == 0 {
			r.ok(rule, w.FuncName(f), "no absolute deadline is armed outside the send loop", w.Pos(f.Pos()), "the socket operations are not bounded by a deadline")
			continue
		}
		for _, s := range sets {
			good := false
			for _, op := range ops {
				if op.Parent() != s.Parent() {
					continue
				}
				// in the loop: the operation's block reaches the Set call's block again
				if reachesBlock(op.Block(), s.Block()) && reachesBlock(s.Block(), op.Block()) {
					good = true
				}
			}
			r.check(good, rule, w.FuncName(f), "a deadline is armed before every operation it bounds", w.Pos(s.Pos()), "inside the loop", "the deadline is set once, outside the loop that uses the socket: it is an absolute time, every operation after it fails with i/o timeout (and here is only logged) — no End Marker leaves the agent after that moment")
		}
	}
}

var _ = fmt.Sprint
var _ types.Type

// ---------------------------------------------------------------------------------------------
// helpers

// inCycle: control can come back from b to a and from a to b (a == b: b lies on a cycle).
func inCycle(a, b *ssa.BasicBlock) bool {
	fromSucc := func(x, to *ssa.BasicBlock) bool {
		for _, s := range x.Succs {
			if s == to || reachesBlock(s, to) {
				return true
			}
		}
		return false
	}
	return fromSucc(a, b) && fromSucc(b, a)
}

// edgeAlwaysLeadsTo: for every branch edge of f whose condition satisfies cond with the given truth, control
// cannot leave the region the edge opens (the blocks dominated by its successor) without executing an
// instruction satisfying target. Returns the number of such edges and the first escaping instruction.
func edgeAlwaysLeadsTo(f *ssa.Function, cond func(v ssa.Value) bool, truth bool, target instrPred) (n int, miss ssa.Instruction) {
	for _, b := range f.Blocks {
		for _, sc := range b.Succs {
			v, tr, ok := boolEdge(b, sc)
			if !ok || tr != truth || !cond(v) || len(sc.Instrs) == 0 {
				continue
			}
			n++
			first := sc.Instrs[0]
			if target(first) {
				continue
			}
			if len(sc.Preds) != 1 {
				// the edge goes straight to a merge point: nothing is done under the condition
				if miss == nil {
					miss = first
				}
				continue
			}
			sc := sc
			leaves := func(i ssa.Instruction) bool {
				return isReturn(i) || !sc.Dominates(i.Block())
			}
			if m := reach(f, first, leaves, target, nil); m != nil && miss == nil {
				// the region only assigns a local that the merge point collects: a boolean φ that takes the
				// constant true over an edge out of the region is "the flag is set" written with a local
				if target != nil && phiTrueFrom(m.Block(), sc) && target(phiMarker{}) {
					continue
				}
				miss = m
			}
		}
	}
	return
}

// phiMarker is handed to a target predicate to ask "does a boolean local that becomes true count as the target?".
type phiMarker struct{ ssa.Instruction }

// phiTrueFrom: block m starts with a boolean φ that receives the constant true from a predecessor inside the
// region dominated by sc.
func phiTrueFrom(m, sc *ssa.BasicBlock) bool {
	for _, ins := range m.Instrs {
		phi, ok := ins.(*ssa.Phi)
		if !ok {
			break
		}
		for i, e := range phi.Edges {
			if i < len(m.Preds) && sc.Dominates(m.Preds[i]) {
				if c, ok := e.(*ssa.Const); ok && c.Value != nil && c.Value.String() == "true" {
					return true
				}
			}
		}
	}
	return false
}

func callNamed(names ...string) instrPred {
	return func(i ssa.Instruction) bool {
		c, ok := i.(ssa.CallInstruction)
		if !ok {
			return false
		}
		n := ""
		if c.Common().IsInvoke() {
			n = c.Common().Method.Name()
		} else if g := staticCallee(c); g != nil {
			n = g.Name()
		}
		for _, x := range names {
			if n == x {
				return true
			}
		}
		return false
	}
}

func condReadsField(field string) func(v ssa.Value) bool {
	return func(v ssa.Value) bool {
		return loadsField(v, field) || strings.HasSuffix(symOf(v).String(), "."+field)
	}
}

func condIsCallTo(name string) func(v ssa.Value) bool {
	return func(v ssa.Value) bool {
		c, ok := v.(*ssa.Call)
		return ok && staticCallee(c) != nil && staticCallee(c).Name() == name
	}
}

func causeAcceptedConst(w *World, prop string) int64 {
	return w.ConstInt(prop, iePkg, "CauseRequestAccepted")
}

// ---------------------------------------------------------------------------------------------
// C02

// ruleFirstMessageAnyType: a peer the agent has no connection for is served whatever its first message is
// (a Heartbeat Request is answered before any association; a session request gets its rejection): between
// the entry of NewPFCPConn and the dispatch of the first datagram nothing looks at the datagram.
func ruleFirstMessageAnyType(w *World, r *Report, prop, rule string) {
	nc := w.Fn(prop, "pfcpiface.(*PFCPNode).NewPFCPConn")
	h := w.Fn(prop, "pfcpiface.(*PFCPConn).HandlePFCPMsg")
	calls := callsTo(nc, h)
	r.floor(rule+" dispatch of the first datagram in NewPFCPConn", len(calls), 1)
	if len(nc.Params) < 4 {
		brokenf(prop, rule, "NewPFCPConn has %d parameters", len(nc.Params))
	}
	buf := nc.Params[3]
	var bad ssa.Instruction
	what := ""
	for _, ref := range *buf.Referrers() {
		ins, ok := ref.(ssa.Instruction)
		if !ok {
			continue
		}
		// what looks INTO the datagram: indexing / slicing it, or handing it to a function that is not the
		// dispatcher (logging it, taking its length or storing it decides nothing)
		switch x := ref.(type) {
		case *ssa.IndexAddr, *ssa.Slice, *ssa.Lookup:
		case ssa.CallInstruction:
			if staticCallee(x) == h {
				continue
			}
			if _, ok := x.Common().Value.(*ssa.Builtin); ok {
				continue
			}
			if g := staticCallee(x); g != nil && g.Pkg != nil {
				if pp := g.Pkg.Pkg.Path(); strings.Contains(pp, "logger") || strings.Contains(pp, "zap") || pp == "fmt" || pp == "encoding/hex" {
					continue
				}
			}
		default:
			continue
		}
		dom := false
		for _, c := range calls {
			if instrReachesNoLoop(nc, ins, c.(ssa.Instruction)) {
				dom = true
			}
		}
		if dom && bad == nil {
			bad = ins
			what = ins.String()
		}
	}
	pos := w.Pos(nc.Pos())
	if bad != nil {
		pos = w.Pos(posNear(bad))
	}
	r.check(bad == nil, rule, w.FuncName(nc), "the first datagram of an unknown peer is dispatched whatever its type", pos, "the datagram is only tested for nil and handed to HandlePFCPMsg", "NewPFCPConn inspects the first datagram ("+what+") before it is dispatched: a Heartbeat, session or release request of a peer that has no connection at that moment (agent restarted, association released or timed out) can be discarded unanswered")
}

// rulePeerKeyIsSourceAddr: responses go back to where the request came from: the address a new connection is
// dialled to (and remembered under) is the datagram's source address as ReadFrom returned it.
func rulePeerKeyIsSourceAddr(w *World, r *Report, prop, rule string) {
	hp := w.Fn(prop, "pfcpiface.(*PFCPNode).handleNewPeers")
	nc := w.Fn(prop, "pfcpiface.(*PFCPNode).NewPFCPConn")
	n := 0
	for _, g := range withClosures(hp) {
		for _, c := range callsTo(g, nc) {
			n++
			args := c.Common().Args
			addr := args[2]
			ok := false
			how := symOf(addr).String()
			if call, isCall := addr.(*ssa.Call); isCall && call.Common().Method != nil || isCall && staticCallee(call) != nil {
				var recv ssa.Value
				if call.Call.IsInvoke() && call.Call.Method.Name() == "String" {
					recv = call.Call.Value
				} else if g := staticCallee(call); g != nil && g.Name() == "String" && len(call.Call.Args) == 1 {
					recv = call.Call.Args[0]
				}
				// through an assertion to the concrete address type
				for d := 0; d < 4 && recv != nil; d++ {
					switch y := recv.(type) {
					case *ssa.TypeAssert:
						recv = y.X
						continue
					case *ssa.ChangeInterface:
						recv = y.X
						continue
					case *ssa.MakeInterface:
						recv = y.X
						continue
					case *ssa.Extract:
						if _, isTA := y.Tuple.(*ssa.TypeAssert); isTA {
							recv = y.Tuple.(*ssa.TypeAssert).X
							continue
						}
					}
					break
				}
				if ex, isEx := recv.(*ssa.Extract); isEx {
					if src, isC := ex.Tuple.(*ssa.Call); isC && callNamed("ReadFrom")(src) {
						ok = true
					}
				}
			}
			r.check(ok, rule, w.FuncName(g), "a new peer's connection is dialled to the source address of its datagram", w.Pos(c.Pos()), "ReadFrom's address .String()", "the connection of a new peer is dialled to / remembered under "+how+" instead of the address its datagram came from: the response leaves for another port or host, and the peer's later datagrams never match the connected socket")
		}
	}
	r.floor(rule+" NewPFCPConn calls in handleNewPeers", n, 1)
}

// ---------------------------------------------------------------------------------------------
// C03 / C17

// ruleWidthLimitIsExclusiveOf100: the exact strategy serves ranges of up to 100 ports (the documented
// limit): the refusal compares Width() with > 100 (or an equivalent bound), not >=.
func ruleWidthLimitIsExclusiveOf100(w *World, r *Report, prop, rule string) {
	f := w.Fn(prop, "pfcpiface.(portRange).asComplexTernaryMatches")
	n := 0
	allInstrs(f, func(i ssa.Instruction) {
		b, ok := i.(*ssa.BinOp)
		if !ok {
			return
		}
		var k int64
		var kok, widthLeft bool
		if c, isCall := stripConv(b.X).(*ssa.Call); isCall && staticCallee(c) != nil && staticCallee(c).Name() == "Width" {
			k, kok = constInt(b.Y)
			widthLeft = true
		} else if c, isCall := stripConv(b.Y).(*ssa.Call); isCall && staticCallee(c) != nil && staticCallee(c).Name() == "Width" {
			k, kok = constInt(b.X)
		}
		if !kok {
			return
		}
		n++
		// largest width that is NOT refused
		var maxOK int64 = -1
		op := b.Op.String()
		if !widthLeft {
			op = map[string]string{"<": ">", "<=": ">=", ">": "<", ">=": "<="}[op]
		}
		switch op {
		case ">", "<=": // refused above k / expanded up to k
			maxOK = k
		case ">=", "<": // refused from k on / expanded below k
			maxOK = k - 1
		}
		r.check(maxOK == 100, rule, w.FuncName(f), "a range of exactly 100 ports is still expanded", w.Pos(b.Pos()), fmt.Sprintf("Width() %s %d", op, k), fmt.Sprintf("the exact strategy refuses from width %d on (Width() %s %d): a filter with exactly 100 ports fails inside the rule writer, the request is accepted and the PDR is never installed", maxOK+1, op, k))
	})
	r.floor(rule+" width comparisons in asComplexTernaryMatches", n, 1)
}

// ---------------------------------------------------------------------------------------------
// C05

// ruleTeidReleasedUnderItsMark: a TEID is freed for every PDR that carries the UPAllocateFteid mark, whatever
// the PDR's interface (the handler allocates for any PDR with the CHOOSE flag).
func ruleTeidReleasedUnderItsMark(w *World, r *Report, prop, rule string) {
	rel := w.Fn(prop, "pfcpiface.releaseAllocatedTEIDs")
	sites, _ := teidReleaseSites(rel, w.Fn(prop, "pfcpiface.(*FTEIDGenerator).FreeID"))
	isSite := func(i ssa.Instruction) bool {
		for _, s := range sites {
			if s == i {
				return true
			}
		}
		return false
	}
	n, miss := edgeAlwaysLeadsTo(rel, condReadsField("UPAllocateFteid"), true, isSite)
	pos := w.Pos(rel.Pos())
	if miss != nil {
		pos = w.Pos(posNear(miss))
	}
	r.check(n > 0 && miss == nil, rule, w.FuncName(rel), "a UP-chosen TEID is freed under the mark it was allocated under", pos, "a marked PDR always leads to FreeID", ifelse(n == 0, "releaseAllocatedTEIDs no longer looks at UPAllocateFteid", "after a PDR with UPAllocateFteid was found the loop can go on without FreeID (a further condition on the PDR narrows the release): the handler allocates a TEID for every PDR with the CHOOSE flag, whatever its source interface, so such a TEID is never given back"))
}

// ruleCreateWritesThroughStoredRules: UP4's sendCreate records the counter cell of each PDR in all.pdrs[i].ctrID.
// That only reaches the session the handler stores afterwards if `all` is the session's own rule set (the
// slices share their arrays), not a copy of it.
func ruleCreateWritesThroughStoredRules(w *World, r *Report, prop, rule string) {
	sc := w.Fn(prop, "pfcpiface.(*UP4).sendCreate")
	writes := false
	allInstrs(sc, func(i ssa.Instruction) {
		if st, ok := i.(*ssa.Store); ok && loadsFieldAddr(st.Addr, "ctrID") {
			writes = true
		}
	})
	if !writes {
		r.ok(rule, w.FuncName(sc), "sendCreate does not write into the rules it is given", w.Pos(sc.Pos()), "no store to ctrID")
		return
	}
	est := w.Fn(prop, "pfcpiface.(*PFCPConn).handleSessionEstablishmentRequest")
	addC := w.ConstInt(prop, pfcpPkg, "upfMsgTypeAdd")
	n := 0
	for _, g := range withClosures(est) {
		allInstrs(g, func(i ssa.Instruction) {
			c, ok := i.(ssa.CallInstruction)
			if !ok || !callNamed("SendMsgToUPF")(i) {
				return
			}
			args := c.Common().Args
			if !c.Common().IsInvoke() {
				args = args[1:]
			}
			if len(args) < 3 {
				return
			}
			if k, ok := constInt(args[0]); !ok || k != addC {
				return
			}
			n++
			s := symOf(args[1])
			ok = s.Op == "field" && strings.HasSuffix(s.Name, "PacketForwardingRules")
			r.check(ok, rule, w.FuncName(g), "the datapath gets the session's own rule set on create", w.Pos(c.Pos()), s.String(), "SendMsgToUPF(add) is given "+s.String()+" instead of session.PacketForwardingRules: UP4 records each PDR's counter cell in the rules it is handed, the stored session never learns them (ctrID stays 0) and the cells are never given back when the session ends")
		})
	}
	r.floor(rule+" create writes in the establishment handler", n, 1)
}

// anyMsgTypes: the protobuf message types an *anypb.Any value can have been built from.
func anyMsgTypes(v ssa.Value, seen map[ssa.Value]bool, out map[string]bool) {
	if v == nil || seen[v] {
		return
	}
	seen[v] = true
	switch x := v.(type) {
	case *ssa.Phi:
		for _, e := range x.Edges {
			anyMsgTypes(e, seen, out)
		}
	case *ssa.Extract:
		if c, ok := x.Tuple.(*ssa.Call); ok && staticCallee(c) != nil && staticCallee(c).Name() == "New" && len(c.Call.Args) == 1 {
			a := c.Call.Args[0]
			if mi, ok := a.(*ssa.MakeInterface); ok {
				a = mi.X
			}
			out[strings.TrimPrefix(typeName(a.Type()), "*")] = true
			return
		}
		out["?"] = true
	case *ssa.UnOp:
		// a cell: every store
		if cell := cellOf(x.X); cell != nil {
			for _, st := range storesTo(cell) {
				anyMsgTypes(st.Val, seen, out)
			}
			return
		}
		out["?"] = true
	case *ssa.Const:
	default:
		out["?"] = true
	}
}

// ruleCommandMatchesModule: each BESS module is sent the command message of its own kind.
func ruleCommandMatchesModule(w *World, r *Report, prop, rule string) {
	want := map[string]string{"processPDR": "WildcardMatchCommand", "processFAR": "ExactMatchCommand", "processQER": "QosCommand", "processSliceMeter": "QosCommand", "processGtpuPathMonitoring": "GtpuPathMonitoringCommand"}
	n := 0
	for f := range w.allFuncs() {
		if !w.isRepoFunc(f) || strings.HasPrefix(w.FuncName(f), "test/") {
			continue
		}
		f := f
		allInstrs(f, func(i ssa.Instruction) {
			c, ok := i.(ssa.CallInstruction)
			if !ok || staticCallee(c) == nil {
				return
			}
			pre, ok := want[staticCallee(c).Name()]
			if !ok || len(c.Common().Args) < 3 {
				return
			}
			types := map[string]bool{}
			anyMsgTypes(c.Common().Args[2], map[ssa.Value]bool{}, types)
			if len(types) == 0 {
				return
			}
			n++
			good := true
			var got []string
			for t := range types {
				got = append(got, t)
				if i := strings.LastIndex(t, "."); i >= 0 {
					t = t[i+1:]
				}
				if !strings.HasPrefix(t, pre) {
					good = false
				}
			}
			r.check(good, rule, w.FuncName(f), staticCallee(c).Name()+" is given a "+pre+"… message", w.Pos(c.Pos()), strings.Join(got, ", "), staticCallee(c).Name()+" can be given "+strings.Join(got, " / ")+": the module rejects a command of another module's type, the error is only logged, and the entry the command was meant to add or delete stays as it was")
		})
	}
	r.floor(rule+" module commands", n, 12)
}

// ---------------------------------------------------------------------------------------------
// C06

// ruleReleaseOncePerSession: the address of a session is one pool entry keyed by the SEID. The session-end
// release calls DeallocIP at most once: a second call fails ("non-existent session"), the deletion handler
// turns that error into a rejection and keeps the session although its address is already free.
func ruleReleaseOncePerSession(w *World, r *Report, prop, rule string) {
	rel := w.Fn(prop, "pfcpiface.releaseAllocatedIPs")
	calls := callsIn(rel, func(c ssa.CallInstruction) bool { return callNamed("DeallocIP")(c.(ssa.Instruction)) })
	r.floor(rule+" DeallocIP calls in releaseAllocatedIPs", len(calls), 1)
	for _, c := range calls {
		ins := c.(ssa.Instruction)
		again := reach(rel, ins, func(i ssa.Instruction) bool {
			return callNamed("DeallocIP")(i)
		}, nil, nil)
		r.check(again == nil, rule, w.FuncName(rel), "DeallocIP runs at most once per session end", w.Pos(c.Pos()), "no DeallocIP reachable after it", "after DeallocIP the release goes on and can call DeallocIP again (one call per marked PDR): the second call fails with 'non-existent session', the deletion is answered with a rejection and the session is kept while its address is already back in the pool — the next session gets an address that a live session still holds")
	}
}

// ---------------------------------------------------------------------------------------------
// C08

// rulePortsKeptForEveryProtocol: the port ranges of a parsed flow description are what parsePort read (or the
// constructor's wildcard): no other code writes them.
func rulePortsKeptForEveryProtocol(w *World, r *Report, prop, rule string) {
	allowed := map[string]bool{"parsePort": true, "newIpFilterRule": true, "newEndpoint": true}
	n := 0
	for f := range w.allFuncs() {
		if !w.isRepoFunc(f) || strings.HasPrefix(w.FuncName(f), "test/") {
			continue
		}
		f := f
		root := f
		for root.Parent() != nil {
			root = root.Parent()
		}
		allInstrs(f, func(i ssa.Instruction) {
			st, ok := i.(*ssa.Store)
			if !ok {
				return
			}
			fa, ok := st.Addr.(*ssa.FieldAddr)
			if !ok || fieldVar(fa) == nil || fieldVar(fa).Name() != "ports" || rootTypeName(fa.X.Type()) != "endpoint" {
				return
			}
			n++
			r.check(allowed[root.Name()], rule, w.FuncName(f), "the port range of a filter endpoint is written by the port parser only", w.Pos(st.Pos()), "in "+root.Name(), w.FuncName(f)+" overwrites the port range of a parsed endpoint: the filter no longer matches the port range written in the flow description")
		})
	}
	r.floor(rule+" writers of endpoint.ports", n, 1)
}

// ruleNewAppPFDIsFresh: the entry a PFD Management Request creates owns its list of flow descriptions: a
// list recycled from the table that is being replaced is still referenced by that table, which a rejected
// request puts back.
func ruleNewAppPFDIsFresh(w *World, r *Report, prop, rule string) {
	f := w.Fn(prop, "pfcpiface.(*PFCPConn).NewAppPFD")
	n := 0
	allInstrs(f, func(i ssa.Instruction) {
		st, ok := i.(*ssa.Store)
		if !ok || !loadsFieldAddr(st.Addr, "flowDescs") {
			return
		}
		n++
		r.check(isFreshSlice(st.Val), rule, w.FuncName(f), "a new application entry owns its flow description list", w.Pos(st.Pos()), "make / nil", "the new entry's list is "+symOf(st.Val).String()+": it shares its array with an entry of the table being replaced, appends of this request overwrite that entry's descriptions, and a rejected request restores a table whose applications carry the rejected descriptions")
	})
	r.floor(rule+" flowDescs stores in NewAppPFD", n, 1)
}

// ---------------------------------------------------------------------------------------------
// C13

// ruleApplyActionFirstOctet: DROP/FORW/BUFF/NOCP/DUPL are bits of the first octet of Apply Action.
func ruleApplyActionFirstOctet(w *World, r *Report, prop, rule string) {
	f := w.Fn(prop, "pfcpiface.(*far).parseFAR")
	n := 0
	allInstrs(f, func(i ssa.Instruction) {
		st, ok := i.(*ssa.Store)
		if !ok || !loadsFieldAddr(st.Addr, "applyAction") {
			return
		}
		n++
		v := stripConv(st.Val)
		good := false
		if u, ok := v.(*ssa.UnOp); ok {
			if ia, ok := u.X.(*ssa.IndexAddr); ok {
				if k, ok := constInt(ia.Index); ok && k == 0 {
					good = true
				}
			}
		}
		r.check(good, rule, w.FuncName(f), "the stored apply-action flags are the first octet of the IE", w.Pos(st.Pos()), "action[0]", "applyAction is "+symOf(st.Val).String()+": with a two-octet Apply Action (Release 16) BUFF|NOCP arrives as {0x0C, 0x00}; read any other way the notification request is lost and no Downlink Data Report is ever sent for the session")
	})
	r.floor(rule+" stores of applyAction", n, 1)
}

// ---------------------------------------------------------------------------------------------
// C14

// ruleSndemIndependentOfOrder: the SNDEM bit alone sets the flag — not the bit AND something that depends on
// which IEs of Update Forwarding Parameters were seen before the flags IE.
func ruleSndemIndependentOfOrder(w *World, r *Report, prop, rule string) {
	f := w.Fn(prop, "pfcpiface.(*far).parseFAR")
	setsFlag := func(i ssa.Instruction) bool {
		if _, ok := i.(phiMarker); ok {
			return true // the flag collected in a local and stored once (R14.3 checks that store)
		}
		st, ok := i.(*ssa.Store)
		return ok && loadsFieldAddr(st.Addr, "sendEndMarker")
	}
	n, miss := edgeAlwaysLeadsTo(f, condIsCallTo("has2ndBit"), true, setsFlag)
	if n == 0 {
		// computed form (flag = has2ndBit(..) / flag || has2ndBit(..)): decided by R14.3
		r.ok(rule, w.FuncName(f), "the SNDEM bit alone decides the flag", w.Pos(f.Pos()), "computed store (see R14.3)")
		return
	}
	pos := w.Pos(f.Pos())
	if miss != nil {
		pos = w.Pos(posNear(miss))
	}
	r.check(miss == nil, rule, w.FuncName(f), "the SNDEM bit alone decides the flag", pos, "bit set ⇒ flag stored", "with the SNDEM bit set parseFAR can still leave the flag unset (a further condition, e.g. on the IEs seen so far): the same request with its IEs in another order, or without a new outer header, is accepted and programmed but emits no End Marker")
}

// ---------------------------------------------------------------------------------------------
// C01

// ruleTickerIntervalPositive: time.NewTicker and (*Ticker).Reset panic on a non-positive interval. An interval
// computed as a difference with elapsed time (period − time.Since(start)) is non-positive as soon as the
// exchange took longer than the period — which is exactly when a peer answers late.
func ruleTickerIntervalPositive(w *World, r *Report, rule string, funcs map[*ssa.Function]bool) {
	n := 0
	for _, f := range sortedFuncs(w, funcs) {
		f := f
		allInstrs(f, func(i ssa.Instruction) {
			c, ok := i.(ssa.CallInstruction)
			if !ok {
				return
			}
			g := c.Common().StaticCallee()
			if g == nil || g.Pkg == nil || g.Pkg.Pkg.Path() != "time" {
				return
			}
			var d ssa.Value
			switch {
			case g.Name() == "NewTicker" || g.Name() == "Tick":
				d = c.Common().Args[0]
			case g.Name() == "Reset" && g.Signature.Recv() != nil && rootTypeName(g.Signature.Recv().Type()) == "Ticker":
				d = c.Common().Args[1]
			default:
				return
			}
			n++
			s := symOf(d)
			bad := ""
			var walk func(x *Sym, depth int)
			walk = func(x *Sym, depth int) {
				if x == nil || depth > 8 || bad != "" {
					return
				}
				if x.Op == "bin" && x.Name == "-" {
					bad = "a difference"
				}
				if x.Op == "call" && (strings.HasSuffix(x.Name, "Since") || strings.HasSuffix(x.Name, "Until") || strings.HasSuffix(x.Name, ".Sub")) {
					bad = "an elapsed time"
				}
				for _, a := range x.Args {
					walk(a, depth+1)
				}
			}
			walk(s, 0)
			r.check(bad == "", rule, w.FuncName(f), "a ticker interval cannot be zero or negative", w.Pos(c.Pos()), s.String(), "the ticker interval is computed from "+bad+" ("+s.String()+"): it is ≤ 0 whenever the time spent exceeds the period (a response that only a retransmission obtained), and "+g.Name()+" panics on a non-positive interval in a goroutine nothing recovers — the agent exits")
		})
	}
	r.floor(rule+" ticker intervals", n, 1)
}

// chanIsParamOf: v (a channel operand inside g or one of its closures) is g's idx-th parameter.
func chanIsParamOf(v ssa.Value, g *ssa.Function, idx int, depth int) bool {
	if depth > 6 || v == nil {
		return false
	}
	switch x := v.(type) {
	case *ssa.Parameter:
		return x.Parent() == g && idx < len(g.Params) && g.Params[idx] == x
	case *ssa.FreeVar:
		fn := x.Parent()
		par := fn.Parent()
		if par == nil {
			return false
		}
		pos := -1
		for i, fv := range fn.FreeVars {
			if fv == x {
				pos = i
			}
		}
		found := false
		for _, h := range withClosures(par) {
			allInstrs(h, func(i ssa.Instruction) {
				if mc, ok := i.(*ssa.MakeClosure); ok && mc.Fn == ssa.Value(fn) && pos >= 0 && pos < len(mc.Bindings) {
					if chanIsParamOf(mc.Bindings[pos], g, idx, depth+1) {
						found = true
					}
				}
			})
		}
		return found
	case *ssa.UnOp:
		if cell := cellOf(x.X); cell != nil {
			for _, st := range storesTo(cell) {
				if chanIsParamOf(st.Val, g, idx, depth+1) {
					return true
				}
			}
		}
		return chanIsParamOf(x.X, g, idx, depth+1)
	case *ssa.Alloc:
		for _, st := range storesTo(x) {
			if chanIsParamOf(st.Val, g, idx, depth+1) {
				return true
			}
		}
	case *ssa.ChangeType:
		return chanIsParamOf(x.X, g, idx, depth+1)
	}
	return false
}

// ruleNoCloseOfWorkerChannel: the function that waits for its workers on a channel never closes it: a worker
// that is late (the join gave up after its time-out) then sends on a closed channel and the process panics.
func ruleNoCloseOfWorkerChannel(w *World, r *Report, rule string) {
	n := 0
	for f := range w.allFuncs() {
		if !w.isRepoFunc(f) || strings.HasPrefix(w.FuncName(f), "test/") || f.Parent() != nil {
			continue
		}
		f := f
		// channels made here
		var made []*ssa.MakeChan
		allInstrs(f, func(i ssa.Instruction) {
			if mc, ok := i.(*ssa.MakeChan); ok {
				made = append(made, mc)
			}
		})
		if len(made) == 0 {
			continue
		}
		resolves := func(v ssa.Value, mc *ssa.MakeChan) bool {
			for d := 0; d < 6 && v != nil; d++ {
				if v == ssa.Value(mc) {
					return true
				}
				switch x := v.(type) {
				case *ssa.ChangeType:
					v = x.X
				case *ssa.UnOp:
					if cell := cellOf(x.X); cell != nil {
						for _, st := range storesTo(cell) {
							if st.Val == ssa.Value(mc) {
								return true
							}
						}
					}
					return false
				case *ssa.FreeVar:
					return false
				default:
					return false
				}
			}
			return false
		}
		for _, mc := range made {
			// does a worker started (directly or through a callee) from here send on it?
			sender := ""
			for _, h := range withClosures(f) {
				allInstrs(h, func(i ssa.Instruction) {
					c, ok := i.(ssa.CallInstruction)
					if !ok || sender != "" {
						return
					}
					g := staticCallee(c)
					if g == nil || !w.isRepoFunc(g) {
						return
					}
					for ai, a := range c.Common().Args {
						if !resolves(a, mc) {
							continue
						}
						for _, cl := range withClosures(g) {
							if cl == g {
								if _, isGo := i.(*ssa.Go); !isGo {
									continue
								}
							}
							allInstrs(cl, func(j ssa.Instruction) {
								if s, ok := j.(*ssa.Send); ok && chanIsParamOf(s.Chan, g, ai, 0) {
									sender = w.FuncName(cl)
								}
							})
						}
					}
				})
			}
			if sender == "" {
				continue
			}
			n++
			var closeAt ssa.Instruction
			for _, h := range withClosures(f) {
				allInstrs(h, func(i ssa.Instruction) {
					c, ok := i.(ssa.CallInstruction)
					if !ok {
						return
					}
					if b, ok := c.Common().Value.(*ssa.Builtin); ok && b.Name() == "close" && len(c.Common().Args) == 1 {
						a := c.Common().Args[0]
						if resolves(a, mc) {
							closeAt = i
						} else if fv, ok := a.(*ssa.FreeVar); ok {
							_ = fv
							// a deferred literal closing the captured channel
							if chanBoundTo(h, fv, mc) {
								closeAt = i
							}
						}
					}
				})
			}
			pos := w.Pos(mc.Pos())
			if closeAt != nil {
				pos = w.Pos(closeAt.Pos())
			}
			r.check(closeAt == nil, rule, w.FuncName(f), "the completion channel of the workers is never closed by the waiter", pos, "no close; workers in "+sender, "the channel the workers ("+sender+") report on is closed by the function that waits for them: a worker that finishes after the join gave up (a datapath call slower than the time-out) sends on a closed channel — a panic in a goroutine nothing recovers")
		}
	}
	r.floor(rule+" worker completion channels", n, 2)
}

func chanBoundTo(cl *ssa.Function, fv *ssa.FreeVar, mc *ssa.MakeChan) bool {
	par := cl.Parent()
	if par == nil {
		return false
	}
	pos := -1
	for i, x := range cl.FreeVars {
		if x == fv {
			pos = i
		}
	}
	hit := false
	for _, h := range withClosures(par) {
		allInstrs(h, func(i ssa.Instruction) {
			if m, ok := i.(*ssa.MakeClosure); ok && m.Fn == ssa.Value(cl) && pos >= 0 && pos < len(m.Bindings) {
				b := m.Bindings[pos]
				if b == ssa.Value(mc) {
					hit = true
				}
				if a, ok := b.(*ssa.Alloc); ok {
					for _, st := range storesTo(a) {
						if st.Val == ssa.Value(mc) {
							hit = true
						}
					}
				}
			}
		})
	}
	return hit
}

// ---------------------------------------------------------------------------------------------
// C09

// ruleStoredPdrSharesQerList: MarkSessionQer re-orders the QER ID lists of the session's PDRs in place, and the
// handler programs the PDRs of its own list (addPDRs), which see the re-ordering because both share the
// list's array. A private copy taken when the PDR is stored cuts that link.
func ruleStoredPdrSharesQerList(w *World, r *Report, prop, rule string) {
	n := 0
	for _, name := range []string{"pfcpiface.(*PFCPSession).CreatePDR", "pfcpiface.(*PFCPSession).UpdatePDR"} {
		f := w.Fn(prop, name)
		var st0 *ssa.Store
		allInstrs(f, func(i ssa.Instruction) {
			if st, ok := i.(*ssa.Store); ok && loadsFieldAddr(st.Addr, "qerIDList") {
				st0 = st
			}
		})
		n++
		pos := w.Pos(f.Pos())
		if st0 != nil {
			pos = w.Pos(st0.Pos())
		}
		r.check(st0 == nil, rule, w.FuncName(f), "the stored PDR keeps the QER ID list of the PDR that is programmed", pos, "no store to qerIDList", "the PDR is stored with a list of its own: MarkSessionQer moves the session QER to the end of the STORED list only, the PDR the handler hands to the datapath keeps the order of the message — with the session QER listed first, BESS binds the PDR to the session QER as its application QER")
	}
	r.floor(rule+" store sites of PDRs", n, 2)
}

// ruleOneSessionQerLabel: MarkSessionQer labels one QER: the label is written once, after the search.
func ruleOneSessionQerLabel(w *World, r *Report, prop, rule string) {
	f := w.Fn(prop, "pfcpiface.(*PFCPSession).MarkSessionQer")
	sq := w.ConstInt(prop, pfcpPkg, "SessionQos")
	n := 0
	allInstrs(f, func(i ssa.Instruction) {
		st, ok := i.(*ssa.Store)
		if !ok || !loadsFieldAddr(st.Addr, "qosLevel") {
			return
		}
		if k, ok := constInt(st.Val); !ok || k != sq {
			return
		}
		n++
		r.check(!inCycle(st.Block(), st.Block()), rule, w.FuncName(f), "the session label is written once, after the candidate search", w.Pos(st.Pos()), "outside every loop", "the label is written inside the search loop: every running maximum met on the way is labelled, a session with two QERs common to all PDRs (session AMBR and UE AMBR) ends with two session QERs")
	})
	r.check(n == 1, rule, w.FuncName(f), "one statement labels the session QER", w.Pos(f.Pos()), "1 store", fmt.Sprintf("%d stores of SessionQos in MarkSessionQer", n))
}

// ---------------------------------------------------------------------------------------------
// C17 / C04 / C15

// ruleOwnReferenceDroppedFirst: "is anybody else using it" is asked after the caller's own reference is gone;
// asked before, a second removal by the same user (a repeated deletion) finds one reference — somebody
// else's — takes it for its own and deletes the shared entry.
func ruleOwnReferenceDroppedFirst(w *World, r *Report, prop, rule string) {
	n := 0
	for _, name := range []string{"pfcpiface.(*UP4).removeInternalApplicationIDAndGetP4rtEntry", "pfcpiface.(*UP4).removeGTPTunnelPeer"} {
		f := w.Fn(prop, name)
		var removes, cards []ssa.Instruction
		allInstrs(f, func(i ssa.Instruction) {
			c, ok := i.(ssa.CallInstruction)
			if !ok || !c.Common().IsInvoke() {
				return
			}
			switch c.Common().Method.Name() {
			case "Remove":
				removes = append(removes, i)
			case "Cardinality":
				cards = append(cards, i)
			}
		})
		for _, c := range cards {
			n++
			dom := false
			for _, rm := range removes {
				if instrDominates(rm, c) {
					dom = true
				}
			}
			if cv, ok := c.(ssa.Value); ok && cv.Referrers() != nil {
				for _, ref := range *cv.Referrers() {
					if bo, ok := ref.(*ssa.BinOp); ok {
						k, isK := constInt(bo.Y)
						if !isK {
							k, isK = constInt(bo.X)
						}
						r.check(isK && k == 0, rule, w.FuncName(f), "the shared object goes when NO user is left (count compared with 0)", w.Pos(bo.Pos()), fmt.Sprintf("%s %d", bo.Op, k), fmt.Sprintf("the number of remaining users is compared with %d, not 0: the entry is deleted and its ID released while one user — a live rule of another session — still refers to it", k))
					}
				}
			}
			r.check(dom, rule, w.FuncName(f), "the users are counted after the caller's own reference was dropped", w.Pos(c.Pos()), "Remove dominates Cardinality", "the remaining users of the shared object are counted before (or without) removing the caller's reference: a removal repeated for the same rule — the agent supports repeating a deletion that failed half way — finds the other user's reference, and deletes the entry and releases the ID that a live session still uses")
		}
	}
	r.floor(rule+" user counts in the remove functions", n, 2)
}

// ---------------------------------------------------------------------------------------------
// C18

// ruleCommentsAlwaysStripped: what removeComments returns is the pattern's ReplaceAll of its input, on every
// path (no shortcut that returns the text as it is after looking for one of the two comment markers).
func ruleCommentsAlwaysStripped(w *World, r *Report, prop, rule string) {
	f := w.Fn(prop, "pfcpiface.removeComments")
	n := 0
	for _, ret := range returnsOf(f) {
		n++
		v := res(ret, 0)
		c, ok := v.(*ssa.Call)
		good := ok && staticCallee(c) != nil && strings.HasPrefix(staticCallee(c).Name(), "ReplaceAll")
		r.check(good, rule, w.FuncName(f), "every path strips the comments with the pattern", w.Pos(ret.Pos()), "ReplaceAll…(input)", "removeComments returns "+symOf(v).String()+" on this path: a text it did not run the pattern over (a shortcut that looks for `//` only leaves /* … */ comments in place, and the decoder fails on them)")
	}
	r.floor(rule+" returns of removeComments", n, 1)
}

// ---------------------------------------------------------------------------------------------
// C19

// ruleSliceMeterJoinCount: every caller of addSliceMeter waits for as many completions as addSliceMeter starts
// workers.
func ruleSliceMeterJoinCount(w *World, r *Report, prop, rule string) {
	add := w.Fn(prop, "pfcpiface.(*bess).addSliceMeter")
	join := w.Fn(prop, "pfcpiface.(*bess).GRPCJoin")
	workers := 0
	for _, h := range withClosures(add) {
		allInstrs(h, func(i ssa.Instruction) {
			if _, ok := i.(*ssa.Go); ok {
				workers++
			}
		})
	}
	n := 0
	for f := range w.allFuncs() {
		if !w.isRepoFunc(f) || strings.HasPrefix(w.FuncName(f), "test/") {
			continue
		}
		if len(callsTo(f, add)) == 0 {
			continue
		}
		for _, jc := range callsTo(f, join) {
			n++
			k, ok := constInt(jc.Common().Args[1])
			r.check(ok && int(k) == workers, rule, w.FuncName(f), "the slice meter join waits for every worker addSliceMeter starts", w.Pos(jc.Pos()), fmt.Sprintf("%d", k), fmt.Sprintf("addSliceMeter starts %d worker(s), %s waits for %d completion(s): the REST request is answered (and its context cancelled) while a direction is still being programmed", workers, w.FuncName(f), k))
		}
	}
	r.floor(rule+" joins after addSliceMeter", n, 2)
}

// ---------------------------------------------------------------------------------------------
// C18

// ruleEveryPeerParsed: validateConf parses EVERY configured peer: the argument of the address parser inside
// the loop over conf.CPIface.Peers is the element of the iteration, not a fixed element.
func ruleEveryPeerParsed(w *World, r *Report, prop, rule string) {
	f := w.Fn(prop, "pfcpiface.validateConf")
	n := 0
	allInstrs(f, func(i ssa.Instruction) {
		c, ok := i.(*ssa.Call)
		if !ok || staticCallee(c) == nil || staticCallee(c).Name() != "ParseIP" || len(c.Call.Args) != 1 {
			return
		}
		arg := c.Call.Args[0]
		u, ok := arg.(*ssa.UnOp)
		if !ok {
			return
		}
		ia, ok := u.X.(*ssa.IndexAddr)
		if !ok || !strings.Contains(symOf(ia.X).String(), "Peers") {
			return
		}
		n++
		_, isK := constInt(ia.Index)
		r.check(!isK && inCycle(c.Block(), c.Block()), rule, w.FuncName(f), "every configured peer address is parsed", w.Pos(c.Pos()), "Peers[<loop index>]", "the peer parsed inside the loop is "+valueText(ia.Index)+", not the element of the iteration: a configuration whose first peer is valid and a later one is not loads without an error")
	})
	r.floor(rule+" peer address parses", n, 1)
}

// ---------------------------------------------------------------------------------------------
// C17 R17.3, second accepted form of the Exact expansion

// exactPositionLoopSymbolic: the expansion written as `rules = make([]T, n)` with n = int(high-low)+1 (0 for an
// inverted range) and `rules[i] = {low + uint16(i), 0xFFFF}` for every i of the slice. Returns false when the
// function has no such slice (the caller then holds the loop to the port-counting form).
func exactPositionLoopSymbolic(w *World, r *Report, f *ssa.Function, name, pos string) bool {
	var mk *ssa.MakeSlice
	allInstrs(f, func(i ssa.Instruction) {
		if m, ok := i.(*ssa.MakeSlice); ok && strings.HasSuffix(typeName(m.Type()), "portRangeTernaryRule") {
			if k, isK := constInt(m.Len); isK && k == 0 {
				return // the empty list the function starts with
			}
			mk = m
		}
	})
	if mk == nil {
		return false
	}
	// the length: every non-zero alternative is int(high - low) + 1
	lenOK, lenDesc := true, ""
	var alts []ssa.Value
	var collect func(v ssa.Value, d int)
	collect = func(v ssa.Value, d int) {
		if phi, ok := v.(*ssa.Phi); ok && d < 4 {
			for _, e := range phi.Edges {
				collect(e, d+1)
			}
			return
		}
		alts = append(alts, v)
	}
	collect(mk.Len, 0)
	for _, a := range alts {
		if k, isK := constInt(a); isK && k == 0 {
			continue
		}
		good := false
		if bo, ok := stripConv(a).(*ssa.BinOp); ok && bo.Op.String() == "+" {
			if k, isK := constInt(bo.Y); isK && k == 1 {
				if sub, ok := stripConv(bo.X).(*ssa.BinOp); ok && sub.Op.String() == "-" {
					// (the difference taken in 16 bits and widened, or of the two bounds widened first: a
					// widening conversion keeps the value)
					if strings.HasSuffix(symOf(stripConv(sub.X)).String(), "portRange.high") && strings.HasSuffix(symOf(stripConv(sub.Y)).String(), "portRange.low") {
						good = true
					}
				}
			}
		}
		if !good {
			lenOK = false
			lenDesc = symOf(a).String()
		}
	}
	r.check(lenOK, "R17.3", name, "the list has one slot per port: high − low + 1", pos, "make(…, int(high-low)+1)", "the list is made with "+lenDesc+" slots")
	// the slots: rules[i].port = low + trunc(i), rules[i].mask = 0xFFFF, i a full-range index of the slice
	nPort, nMask := 0, 0
	allInstrs(f, func(i ssa.Instruction) {
		st, ok := i.(*ssa.Store)
		if !ok {
			return
		}
		fa, ok := st.Addr.(*ssa.FieldAddr)
		if !ok {
			return
		}
		// the slot is written field by field, or through a literal temporary that is copied into it
		ia, ok := fa.X.(*ssa.IndexAddr)
		if !ok {
			if tmp, isTmp := fa.X.(*ssa.Alloc); isTmp && tmp.Referrers() != nil {
				for _, ref := range *tmp.Referrers() {
					if ld, isLd := ref.(*ssa.UnOp); isLd && ld.Referrers() != nil {
						for _, ref2 := range *ld.Referrers() {
							if cp, isSt := ref2.(*ssa.Store); isSt {
								if x, isIA := cp.Addr.(*ssa.IndexAddr); isIA {
									ia, ok = x, true
								}
							}
						}
					}
				}
			}
		}
		if !ok || !derivesFromMake(ia.X, mk) {
			return
		}
		full := isRangeIndexOf(ia.Index) || isCountingIndexOf(ia.Index)
		switch fa.Field {
		case 0:
			nPort++
			good := false
			if bo, ok := stripConv(st.Val).(*ssa.BinOp); ok && bo.Op.String() == "+" {
				// low + trunc(i) and trunc(widen(low) + i) are the same 16-bit value
				x, y := stripConv(bo.X), stripConv(bo.Y)
				if strings.HasSuffix(symOf(y).String(), "portRange.low") {
					x, y = y, x
				}
				if strings.HasSuffix(symOf(x).String(), "portRange.low") && y == stripConv(ia.Index) {
					good = true
				}
			}
			r.check(good && full, "R17.3", name, "slot i holds port low + i", w.Pos(st.Pos()), symOf(st.Val).String(), "slot i of the expansion holds "+symOf(st.Val).String()+ifelse(full, "", " (and i does not run over the whole list)"))
		case 1:
			nMask++
			k, isK := constInt(st.Val)
			r.check(isK && k == 0xFFFF, "R17.3", name, "every slot matches its port exactly (mask 0xFFFF)", w.Pos(st.Pos()), symOf(st.Val).String(), "the mask of a slot is "+symOf(st.Val).String())
		}
	})
	r.check(nPort == 1 && nMask == 1, "R17.3", name, "one statement fills the slots", pos, "1 port store, 1 mask store", fmt.Sprintf("%d port stores, %d mask stores into the list", nPort, nMask))
	return true
}

func derivesFromMake(v ssa.Value, mk *ssa.MakeSlice) bool {
	for d := 0; d < 6 && v != nil; d++ {
		if v == ssa.Value(mk) {
			return true
		}
		switch x := v.(type) {
		case *ssa.Phi:
			for _, e := range x.Edges {
				if e == ssa.Value(mk) {
					return true
				}
			}
			return false
		case *ssa.Slice:
			v = x.X
		case *ssa.UnOp:
			if cell := cellOf(x.X); cell != nil {
				for _, st := range storesTo(cell) {
					if st.Val == ssa.Value(mk) {
						return true
					}
				}
			}
			return false
		default:
			return false
		}
	}
	return false
}


// ruleNoRelock: no mutex is acquired again while the same goroutine holds it (directly, through a callee, or
// through the String()/Error() method of a value that is printed under the lock, whatever the log level: the
// arguments of a log call are evaluated, and zap formats them, only when the level is enabled — so the handler
// blocks for ever exactly when the operator turns debug logging on). C01's R01.2.RELOCK over all repo functions.
func ruleNoRelock(w *World, r *Report, rule string) {
	funcs := map[*ssa.Function]bool{}
	for f := range w.allFuncs() {
		if w.isRepoFunc(f) && !strings.HasPrefix(w.FuncName(f), "test/") {
			funcs[f] = true
		}
	}
	rl, sites := w.reentrantLocks(funcs)
	for _, x := range rl {
		r.bad(rule, w.FuncName(x.fn), "no re-acquisition of "+x.mu.Name()+" while it is held", w.Pos(posNear(x.ins)), "the mutex "+x.mu.Name()+" is held here and acquired again "+x.via+": sync mutexes are not reentrant, the call never returns — the request is never answered and every later request that needs the lock hangs as well")
	}
	if len(rl) == 0 {
		r.ok(rule, "pfcpiface", "no mutex is re-acquired while held (calls and printed values under a lock)", "-", fmt.Sprintf("%d calls / printed values examined under a non-empty lockset", sites))
	}
	r.floor(rule+" call sites under a lock", sites, 20)
}

// =============================================================================================
// round 7

// ruleReleaseReadsOnly: releaseAllocatedTEIDs / releaseAllocatedIPs give identifiers back; they do not edit the
// session they are given. One caller (the report-response path) releases BEFORE it deletes from the datapath,
// and the delete keys are built from the very fields a "forgetful" release would zero.
func ruleReleaseReadsOnly(w *World, r *Report, prop, rule string) {
	for _, name := range []string{"pfcpiface.releaseAllocatedTEIDs", "pfcpiface.releaseAllocatedIPs"} {
		f := w.Fn(prop, name)
		var bad *ssa.Store
		allInstrs(f, func(i ssa.Instruction) {
			st, ok := i.(*ssa.Store)
			if !ok {
				return
			}
			// the address written to, followed down to what it is an address IN: the session parameter?
			a := st.Addr
			for d := 0; d < 8 && a != nil; d++ {
				switch x := a.(type) {
				case *ssa.FieldAddr:
					a = x.X
					continue
				case *ssa.IndexAddr:
					a = x.X
					continue
				case *ssa.UnOp:
					a = x.X
					continue
				case *ssa.Parameter:
					if rootTypeName(x.Type()) == "PFCPSession" {
						bad = st
					}
				}
				break
			}
		})
		pos := w.Pos(f.Pos())
		if bad != nil {
			pos = w.Pos(bad.Pos())
		}
		r.check(bad == nil, rule, w.FuncName(f), "the release does not edit the session's rules", pos, "no store into the session", "the release writes into the session it was given (it zeroes the mark / the TEID): a caller that releases before it deletes from the datapath builds its delete keys from the zeroed fields, the delete matches nothing and the rule stays installed")
	}
}

// ruleSessionQerMovedNotSwapped: the session QER goes to the end of a PDR's QER list and the others keep their
// order (the first of them is the application QER that is programmed): nothing is stored AT the found index.
func ruleSessionQerMovedNotSwapped(w *World, r *Report, prop, rule string) {
	f := w.Fn(prop, "pfcpiface.(*PFCPSession).MarkSessionQer")
	var idxVals []ssa.Value
	allInstrs(f, func(i ssa.Instruction) {
		if c, ok := i.(*ssa.Call); ok && staticCallee(c) != nil && staticCallee(c).Name() == "findItemIndex" {
			idxVals = append(idxVals, c)
		}
	})
	if len(idxVals) == 0 {
		r.trivial(rule, w.FuncName(f), "MarkSessionQer does not search the lists by index", w.Pos(f.Pos()), "no findItemIndex call (the re-ordering is judged by R03.8 / R09.7)")
		return
	}
	var bad *ssa.Store
	allInstrs(f, func(i ssa.Instruction) {
		st, ok := i.(*ssa.Store)
		if !ok {
			return
		}
		ia, ok := st.Addr.(*ssa.IndexAddr)
		if !ok {
			return
		}
		for _, iv := range idxVals {
			if stripConv(ia.Index) == iv {
				bad = st
			}
		}
	})
	pos := w.Pos(f.Pos())
	if bad != nil {
		pos = w.Pos(bad.Pos())
	}
	r.check(bad == nil, rule, w.FuncName(f), "the other QER IDs keep their order when the session QER moves to the end", pos, "no element stored at the found index", "an element is stored at the position the session QER was found at (a swap with the last element): with three or more QERs the order of the others changes, and the PDR is programmed with a different application QER than the first one the control plane listed")
}

// ruleDeleteGetsTheRules: a delete hands the rules to delete as the FIRST rule set (that is what both plug-ins
// read on delete); an empty literal there deletes nothing.
func ruleDeleteGetsTheRules(w *World, r *Report, prop, rule string) {
	delC := w.ConstInt(prop, pfcpPkg, "upfMsgTypeDel")
	n := 0
	for f := range w.allFuncs() {
		if !w.isRepoFunc(f) || strings.HasPrefix(w.FuncName(f), "test/") {
			continue
		}
		f := f
		allInstrs(f, func(i ssa.Instruction) {
			c, ok := i.(ssa.CallInstruction)
			if !ok || !callNamed("SendMsgToUPF")(i) {
				return
			}
			args := c.Common().Args
			if !c.Common().IsInvoke() {
				if len(args) == 0 {
					return
				}
				args = args[1:]
			}
			if len(args) < 3 {
				return
			}
			if k, ok := constInt(args[0]); !ok || k != delC {
				return
			}
			n++
			empty := false
			if k, ok := args[1].(*ssa.Const); ok && k.Value == nil {
				empty = true // the zero value of the rule-set type
			}
			if u, ok := args[1].(*ssa.UnOp); ok {
				if al, ok := u.X.(*ssa.Alloc); ok {
					stores := 0
					if al.Referrers() != nil {
						for _, ref := range *al.Referrers() {
							switch ref.(type) {
							case *ssa.Store, *ssa.FieldAddr:
								stores++
							}
						}
					}
					empty = stores == 0
				}
			}
			r.check(!empty, rule, w.FuncName(f), "a datapath delete names the rules to delete", w.Pos(c.Pos()), symOf(args[1]).String(), "SendMsgToUPF(delete) is given an empty rule set in the position both datapaths read on delete (the rules are in the other argument): nothing is removed from the datapath although the session is dropped")
		})
	}
	r.floor(rule+" datapath deletes", n, 4)
}

// ruleGaugeCountedBeforeAbort: a refused establishment ends through RemoveSession, which takes a unit out of the
// sessions gauge; the unit is put in when the session object is created (NewPFCPSession), before any path
// that can abort.
func ruleGaugeCountedBeforeAbort(w *World, r *Report, prop, rule string) {
	nps := w.Fn(prop, "pfcpiface.(*PFCPConn).NewPFCPSession")
	counted := len(callsIn(nps, func(c ssa.CallInstruction) bool { return callNamed("SaveSessions")(c.(ssa.Instruction)) })) > 0
	if counted {
		r.ok(rule, w.FuncName(nps), "the gauge unit exists before the establishment can be refused", w.Pos(nps.Pos()), "SaveSessions in NewPFCPSession")
		return
	}
	est := w.Fn(prop, "pfcpiface.(*PFCPConn).handleSessionEstablishmentRequest")
	var bad ssa.Instruction
	for _, g := range withClosures(est) {
		saves := callsIn(g, func(c ssa.CallInstruction) bool { return callNamed("SaveSessions")(c.(ssa.Instruction)) })
		for _, rm := range callsIn(g, func(c ssa.CallInstruction) bool { return callNamed("RemoveSession")(c.(ssa.Instruction)) }) {
			dom := false
			for _, s := range saves {
				if instrDominates(s.(ssa.Instruction), rm.(ssa.Instruction)) {
					dom = true
				}
			}
			if !dom {
				bad = rm.(ssa.Instruction)
			}
		}
	}
	pos := w.Pos(est.Pos())
	if bad != nil {
		pos = w.Pos(bad.Pos())
	}
	r.check(bad == nil, rule, w.FuncName(est), "the gauge unit exists before the establishment can be refused", pos, "SaveSessions dominates every RemoveSession", "NewPFCPSession no longer counts the session and the handler counts it only on its accepting path, but the refusing exits still end through RemoveSession: every refused establishment takes a unit out of the sessions gauge that was never put in")
}

// ruleCreateOnlyAppends: CreatePDR appends. Replacing a stored PDR there bypasses UpdatePDR's carry-over of the
// allocation marks (R05.7): the address the UPF chose for the replaced PDR is never given back.
func ruleCreateOnlyAppends(w *World, r *Report, prop, rule string) {
	f := w.Fn(prop, "pfcpiface.(*PFCPSession).CreatePDR")
	var bad *ssa.Store
	marks := false
	allInstrs(f, func(i ssa.Instruction) {
		if st, ok := i.(*ssa.Store); ok {
			if ia, ok := st.Addr.(*ssa.IndexAddr); ok && strings.HasSuffix(symOf(ia.X).String(), ".pdrs") && !w.slotJustAppended(ia) {
				bad = st
			}
		}
		if fa, ok := i.(*ssa.FieldAddr); ok && fieldVar(fa) != nil && fieldVar(fa).Name() == "allocIPFlag" {
			marks = true
		}
	})
	pos := w.Pos(f.Pos())
	if bad != nil {
		pos = w.Pos(bad.Pos())
	}
	r.check(bad == nil || marks, rule, w.FuncName(f), "CreatePDR does not replace a stored PDR (or carries its allocation marks over)", pos, "append only", "CreatePDR overwrites a stored PDR with the parsed one and drops its allocIPFlag / UPAllocateFteid marks: a Create PDR that repeats an ID (with the concrete address the UPF had chosen) makes the session end without DeallocIP")
}

// slotJustAppended: the element address is xs[len(xs)-1] where xs is read back right after `xs = append(xs, e…)`
// with at least one e — the slot the append has just added, not one that held an element before.
func (w *World) slotJustAppended(ia *ssa.IndexAddr) bool {
	ld, ok := ia.X.(*ssa.UnOp)
	if !ok || ld.Op != token.MUL {
		return false
	}
	key := w.keyOf(ld)
	app, ok := w.storedJustBefore(ld).(*ssa.Call)
	if !ok || calleeName(app) != "builtin.append" || len(app.Call.Args) != 2 || !sameKey(w.keyOf(app.Call.Args[0]), key) {
		return false
	}
	// appended elements: a fresh var-args array of at least one element
	sl, ok := app.Call.Args[1].(*ssa.Slice)
	if !ok {
		return false
	}
	al, ok := sl.X.(*ssa.Alloc)
	if !ok {
		return false
	}
	arr, ok := derefType(al.Type()).Underlying().(*types.Array)
	if !ok || arr.Len() < 1 {
		return false
	}
	// the index is len(xs)-1 of the same, grown, list
	c, lenLoad, ok := w.lenOfKeyLoad(ia.Index, key)
	if !ok || c != -1 {
		return false
	}
	ll, ok := lenLoad.(*ssa.UnOp)
	return ok && w.storedJustBefore(ll) == ssa.Value(app)
}

// rulePoolArgIsThePool: every parsePDR call of the session handlers is given the UPF's pool (a nil pool makes a
// CHV4 request fail although addresses are free, and hides a sticky address from its session).
func rulePoolArgIsThePool(w *World, r *Report, prop, rule string) {
	pf := w.Fn(prop, "pfcpiface.(*pdr).parsePDR")
	n := 0
	for _, hn := range []string{"pfcpiface.(*PFCPConn).handleSessionEstablishmentRequest", "pfcpiface.(*PFCPConn).handleSessionModificationRequest"} {
		h := w.Fn(prop, hn)
		for k, c := range callsTo(h, pf) {
			n++
			a := c.Common().Args[len(c.Common().Args)-1]
			s := symOf(a).String()
			r.check(strings.HasSuffix(s, ".ippool"), rule, hn, fmt.Sprintf("parsePDR call #%d is given the UPF's address pool", k+1), w.Pos(c.Pos()), s, "parsePDR is given "+s+" as pool: a PDR of this request that asks for (or repeats its request for) a UPF-chosen address is refused although the pool has addresses")
		}
	}
	r.floor(rule+" parsePDR calls", n, 3)
}

// ruleReservedIDNotPooled: ID 0 means "no application" / "no tunnel peer"; the pools are filled from 1.
func ruleReservedIDNotPooled(w *World, r *Report, prop, rule string) {
	n := 0
	for _, name := range []string{"pfcpiface.(*UP4).initApplicationIDs", "pfcpiface.(*UP4).initTunnelPeerIDs"} {
		f := w.Fn(prop, name)
		// filled slot by slot: pool[i] = T(i + k)
		allInstrs(f, func(i ssa.Instruction) {
			st, ok := i.(*ssa.Store)
			if !ok {
				return
			}
			ia, ok := st.Addr.(*ssa.IndexAddr)
			if !ok {
				return
			}
			if _, isMk := ia.X.(*ssa.MakeSlice); !isMk {
				return
			}
			first := int64(-99)
			v := stripConv(st.Val)
			if bo, ok := v.(*ssa.BinOp); ok && bo.Op.String() == "+" && (stripConv(bo.X) == ia.Index || stripConv(bo.X) == stripConv(ia.Index)) {
				if d, isD := constInt(bo.Y); isD && (isCountingIndexOf(ia.Index) || isRangeIndexOf(ia.Index)) {
					first = d
				}
			} else if v == ia.Index && (isCountingIndexOf(ia.Index) || isRangeIndexOf(ia.Index)) {
				first = 0
			}
			if first == -99 {
				return
			}
			n++
			r.check(first >= 1, rule, w.FuncName(f), "the pool is filled from 1 (0 is reserved)", w.Pos(st.Pos()), fmt.Sprintf("first value %d", first), fmt.Sprintf("the pool's first value is %d: ID 0 is the value that means 'none' (DefaultApplicationID / no tunnel peer) — the object that gets it matches like an unfiltered rule and collides with the entries of rules that have none", first))
		})
		allInstrs(f, func(i ssa.Instruction) {
			c, ok := i.(*ssa.Call)
			if !ok || calleeName(c) != "builtin.append" || len(c.Call.Args) < 2 {
				return
			}
			// the appended element: stored into the var-args array
			var elem ssa.Value
			if sl, ok := c.Call.Args[1].(*ssa.Slice); ok {
				if al, ok := sl.X.(*ssa.Alloc); ok && al.Referrers() != nil {
					for _, ref := range *al.Referrers() {
						if ia, ok := ref.(*ssa.IndexAddr); ok && ia.Referrers() != nil {
							for _, r2 := range *ia.Referrers() {
								if st, ok := r2.(*ssa.Store); ok {
									elem = st.Val
								}
							}
						}
					}
				}
			}
			if elem == nil {
				return
			}
			n++
			v := stripConv(elem)
			start := int64(-99)
			if phi, ok := v.(*ssa.Phi); ok {
				for _, e := range phi.Edges {
					if k, isK := constInt(e); isK {
						start = k
					}
				}
			} else if bo, ok := v.(*ssa.BinOp); ok && bo.Op.String() == "+" {
				if phi, ok := bo.X.(*ssa.Phi); ok {
					for _, e := range phi.Edges {
						if k, isK := constInt(e); isK {
							if d, isD := constInt(bo.Y); isD {
								start = k + d
							}
						}
					}
				}
			}
			r.check(start >= 1, rule, w.FuncName(f), "the pool is filled from 1 (0 is reserved)", w.Pos(c.Pos()), fmt.Sprintf("first value %d", start), fmt.Sprintf("the pool's first value is %d: ID 0 is the value that means 'none' (DefaultApplicationID / no tunnel peer) — the object that gets it matches like an unfiltered rule and collides with the entries of rules that have none", start))
		})
	}
	if n == 0 {
		brokenf(prop, rule, "no statement that fills an ID pool was recognised in initApplicationIDs / initTunnelPeerIDs")
	}
}

// ruleWorkerAlwaysReports: a BESS rule worker that was started reports its completion on every path except the
// ones that give up on an error (those are counted by the join's time-out, R11.4): a silent return under any
// other condition costs the request the full time-out for every such rule.
func ruleWorkerAlwaysReports(w *World, r *Report, prop, rule string) {
	n := 0
	for f := range w.allFuncs() {
		if !w.isRepoFunc(f) || f.Parent() == nil || f.Parent().Signature.Recv() == nil || rootTypeName(f.Parent().Signature.Recv().Type()) != "bess" {
			continue
		}
		var sends []ssa.Instruction
		allInstrs(f, func(i ssa.Instruction) {
			if s, ok := i.(*ssa.Send); ok && strings.Contains(typeName(s.Chan.Type()), "chan") && typeName(s.X.Type()) == "bool" {
				sends = append(sends, i)
			}
		})
		if len(sends) == 0 {
			continue
		}
		n++
		isSend := func(i ssa.Instruction) bool { _, ok := i.(*ssa.Send); return ok }
		errEdge := func(a, b *ssa.BasicBlock) bool {
			x, op, y, ok := edgeFact(a, b)
			if !ok {
				return false
			}
			isErr := func(v ssa.Value) bool { return v != nil && isErrorType(v.Type()) }
			return op.String() == "!=" && ((isErr(x) && isNilConst(y)) || (isErr(y) && isNilConst(x)))
		}
		miss := reach(f, nil, isReturn, isSend, errEdge)
		pos := w.Pos(f.Pos())
		if miss != nil {
			pos = w.Pos(miss.Pos())
		}
		r.check(miss == nil, rule, w.FuncName(f), "the worker reports completion on every path that did not fail", pos, "send on done before every return (error exits aside)", "the worker can return without reporting although nothing failed: the join of the request waits out its time-out for this rule — a session delete takes a second per such rule, an association with many sessions runs into the stop time-out with sessions left in the datapath")
	}
	r.floor(rule+" BESS rule workers", n, 6)
}

// ruleNoLockHeldAcrossIteration: between two acquisitions of the same mutex in one function there is a release
// on every path (a `continue` that skips the unlock leaves the loop holding the lock and blocks on it at once).
func ruleNoLockHeldAcrossIteration(w *World, r *Report, rule string) {
	n := 0
	for f := range w.allFuncs() {
		if !w.isRepoFunc(f) || strings.HasPrefix(w.FuncName(f), "test/") {
			continue
		}
		f := f
		allInstrs(f, func(i ssa.Instruction) {
			c, ok := i.(ssa.CallInstruction)
			if !ok {
				return
			}
			op, mu, _, ok := lockOp(c)
			if !ok || op != "Lock" {
				return
			}
			if _, isDefer := i.(*ssa.Defer); isDefer {
				return
			}
			n++
			same := func(want string) instrPred {
				return func(j ssa.Instruction) bool {
					cj, ok := j.(ssa.CallInstruction)
					if !ok {
						return false
					}
					o2, m2, _, ok := lockOp(cj)
					return ok && o2 == want && m2 == mu
				}
			}
			hasDeferUnlock := false
			allInstrs(f, func(j ssa.Instruction) {
				if d, ok := j.(*ssa.Defer); ok {
					if o2, m2, _, ok := lockOp(d); ok && o2 == "Unlock" && m2 == mu {
						hasDeferUnlock = true
					}
				}
			})
			if hasDeferUnlock {
				return
			}
			again := reach(f, i, same("Lock"), same("Unlock"), nil)
			pos := w.Pos(i.Pos())
			r.check(again == nil, rule, w.FuncName(f), "the mutex "+mu.Name()+" is released before it is acquired again", pos, "Unlock on every path to the next Lock", "a path leads from this Lock of "+mu.Name()+" back to a Lock of the same mutex without an Unlock in between (an early `continue`/loop-back that skips the unlock): the goroutine blocks on a lock it holds, and everybody else who needs the lock with it")
		})
	}
	r.floor(rule+" lock acquisitions", n, 20)
}

// ruleNilResultChecked: a repo function that can return nil for an interface / pointer result (and is not the
// (value, error) idiom, which R01.1.NIL covers) has its result tested before it is used as a receiver.
func ruleNilResultChecked(w *World, r *Report, rule string, funcs map[*ssa.Function]bool) {
	// producers: result index -> true
	prod := map[*ssa.Function][]int{}
	for g := range w.allFuncs() {
		if !w.isRepoFunc(g) || g.Signature.Results().Len() < 2 {
			continue
		}
		res := g.Signature.Results()
		if isErrorType(res.At(res.Len() - 1).Type()) {
			continue
		}
		for idx := 0; idx < res.Len(); idx++ {
			t := res.At(idx).Type().Underlying()
			_, isI := t.(*types.Interface)
			_, isP := t.(*types.Pointer)
			if !isI && !isP {
				continue
			}
			nilRet, nonNil := false, false
			for _, ret := range returnsOf(g) {
				if idx < len(ret.Results) {
					if isNilConst(res0(ret, idx)) {
						nilRet = true
					} else {
						nonNil = true
					}
				}
			}
			if nilRet && nonNil {
				prod[g] = append(prod[g], idx)
			}
		}
	}
	n := 0
	for _, f := range sortedFuncs(w, funcs) {
		f := f
		allInstrs(f, func(i ssa.Instruction) {
			c, ok := i.(*ssa.Call)
			if !ok || staticCallee(c) == nil || len(prod[staticCallee(c)]) == 0 {
				return
			}
			for _, idx := range prod[staticCallee(c)] {
				v := extractOf(c, idx)
				if v == nil || v.Referrers() == nil {
					continue
				}
				same := func(x ssa.Value) bool { return x == v }
				for _, ref := range *v.Referrers() {
					use, isUse := ref.(ssa.Instruction)
					if !isUse {
						continue
					}
					deref := false
					switch u := ref.(type) {
					case ssa.CallInstruction:
						deref = u.Common().IsInvoke() && u.Common().Value == v
					case *ssa.FieldAddr:
						deref = u.X == v
					case *ssa.UnOp:
						deref = u.X == v && u.Op.String() == "*"
					}
					if !deref {
						continue
					}
					n++
					hit := reach(f, c, func(j ssa.Instruction) bool { return j == use }, nil, func(a, b *ssa.BasicBlock) bool {
						return nilnessEdge(a, b, same, false)
					})
					r.check(hit == nil, rule, w.FuncName(f), "the result of "+staticCallee(c).Name()+" is tested for nil before it is used", w.Pos(use.Pos()), "behind a != nil edge", staticCallee(c).Name()+" can return nil (the exchange was cut short by a shutdown, no reply and no time-out), and the result is used here without a nil test — also when it is only an argument of a log call, which is evaluated at every log level: a nil dereference in a goroutine nothing recovers")
				}
			}
		})
	}
	if n == 0 {
		r.ok(rule, "receive path", "no possibly-nil result of a repo function is used as a receiver", "-", fmt.Sprintf("%d producers", len(prod)))
	}
}

// ruleTimersAsConfigured: resp_timeout and heart_beat_interval are used as parsed (the loader validated exactly
// these strings with time.ParseDuration): no rounding between the parse and the field.
func ruleTimersAsConfigured(w *World, r *Report, prop, rule string) {
	f := w.Fn(prop, "pfcpiface.NewUPF")
	n := 0
	for _, g := range withClosures(f) {
		allInstrs(g, func(i ssa.Instruction) {
			st, ok := i.(*ssa.Store)
			if !ok || !(loadsFieldAddr(st.Addr, "respTimeout") || loadsFieldAddr(st.Addr, "hbInterval")) {
				return
			}
			n++
			good := true
			what := ""
			var walk func(v ssa.Value, d int)
			seen := map[ssa.Value]bool{}
			walk = func(v ssa.Value, d int) {
				if v == nil || seen[v] || d > 6 {
					return
				}
				seen[v] = true
				switch x := v.(type) {
				case *ssa.Phi:
					for _, e := range x.Edges {
						walk(e, d+1)
					}
				case *ssa.Const:
				case *ssa.Extract:
					if c, ok := x.Tuple.(*ssa.Call); ok && staticCallee(c) != nil && staticCallee(c).Name() == "ParseDuration" {
						return
					}
					good, what = false, symOf(v).String()
				case *ssa.UnOp:
					if cell := cellOf(x.X); cell != nil {
						for _, s2 := range storesTo(cell) {
							walk(s2.Val, d+1)
						}
						return
					}
					good, what = false, symOf(v).String()
				default:
					good, what = false, symOf(v).String()
				}
			}
			walk(st.Val, 0)
			r.check(good, rule, w.FuncName(g), "the timer is the configured duration, as parsed", w.Pos(st.Pos()), "time.ParseDuration(conf…)", "the timer is "+what+", not the parsed configuration value: a resp_timeout below the rounding unit becomes 0 (all 1+N transmissions leave back to back and the peer is declared dead at once), any other is shortened")
		})
	}
	r.floor(rule+" timer fields set in NewUPF", n, 2)
}

// ruleStoredIsHandedOn: Update{PDR,FAR,QER} store *f and the caller programs *f: nothing is written into f after
// the store (it would reach the datapath and not the session record, or the other way round).
func ruleStoredIsHandedOn(w *World, r *Report, prop, rule string) {
	n := 0
	for _, name := range []string{"pfcpiface.(*PFCPSession).UpdateFAR", "pfcpiface.(*PFCPSession).UpdateQER"} {
		f := w.FnOpt(name)
		if f == nil || len(f.Params) < 2 {
			continue
		}
		param := f.Params[1]
		if _, isPtr := param.Type().Underlying().(*types.Pointer); !isPtr {
			continue
		}
		var elemStores []ssa.Instruction
		allInstrs(f, func(i ssa.Instruction) {
			if st, ok := i.(*ssa.Store); ok {
				if _, ok := st.Addr.(*ssa.IndexAddr); ok {
					elemStores = append(elemStores, i)
				}
			}
		})
		for _, es := range elemStores {
			n++
			late := reach(f, es, func(j ssa.Instruction) bool {
				st, ok := j.(*ssa.Store)
				if !ok {
					return false
				}
				fa, ok := st.Addr.(*ssa.FieldAddr)
				return ok && fa.X == ssa.Value(param)
			}, isReturn, nil)
			pos := w.Pos(es.Pos())
			if late != nil {
				pos = w.Pos(late.Pos())
			}
			r.check(late == nil, rule, w.FuncName(f), "the rule handed to the datapath is the rule that was stored", pos, "no write into the parsed rule after it was stored", "the parsed rule is modified after its copy went into the session: the datapath is programmed with a value (e.g. the action carried over from the old rule) that the stored rule does not have — what the agent later decides from the record (is notification asked for?) disagrees with what the datapath does")
		}
	}
	r.floor(rule+" element stores in the update functions", n, 1)
}

// ruleSenderUsesCurrentClient: the UP4 end-marker sender runs for the life of the agent while the P4Runtime
// client is replaced on every reconnect: the client is read for each packet.
func ruleSenderUsesCurrentClient(w *World, r *Report, prop, rule string) {
	f := w.Fn(prop, "pfcpiface.(*UP4).endMarkerSendLoop")
	n := 0
	allInstrs(f, func(i ssa.Instruction) {
		c, ok := i.(ssa.CallInstruction)
		if !ok || !callNamed("SendPacketOut")(i) || len(c.Common().Args) == 0 {
			return
		}
		n++
		recv := c.Common().Args[0]
		ld, isLd := recv.(*ssa.UnOp)
		good := isLd && loadsField(recv, "p4client") && inCycle(ld.Block(), ld.Block())
		r.check(good, rule, w.FuncName(f), "each End Marker goes out through the current P4Runtime client", w.Pos(c.Pos()), "up4.p4client read in the loop", "the sender uses "+symOf(recv).String()+" read once before the loop: after the first reconnect (setupChannel installs a new client, the loop is started only once) every End Marker is written to the stream of the connection that is gone")
	})
	r.floor(rule+" packet-out calls in the sender", n, 1)
}

// ruleEveryFarRegistersItsPeer: every FAR that forwards to the access side with a TEID becomes a user of its
// tunnel peer (one reference per FAR is what removeGTPTunnelPeer drops).
func ruleEveryFarRegistersItsPeer(w *World, r *Report, prop, rule string) {
	f := w.Fn(prop, "pfcpiface.(*UP4).updateTunnelPeersBasedOnFARs")
	cond := func(v ssa.Value) bool {
		bo, ok := v.(*ssa.BinOp)
		if !ok {
			return false
		}
		return loadsField(bo.X, "tunnelTEID") || strings.HasSuffix(symOf(bo.X).String(), ".tunnelTEID")
	}
	n, miss := edgeAlwaysLeadsTo(f, cond, true, callNamed("addOrUpdateGTPTunnelPeer"))
	pos := w.Pos(f.Pos())
	if miss != nil {
		pos = w.Pos(posNear(miss))
	}
	r.check(n > 0 && miss == nil, rule, w.FuncName(f), "every tunnelled downlink FAR is registered with its tunnel peer", pos, "the FAR's own fields alone decide", ifelse(n == 0, "the loop no longer tests the FAR's TEID", "a FAR that forwards to the access side with a TEID can be skipped (a further condition, e.g. 'this base station was already written for this request'): it never becomes a user of the peer, and removing the FAR that did register deletes the peer entry and frees its ID while this FAR still points to it"))
}

// ruleHelperLoopNeedsItsSocket: the datapath helper goroutines (end-marker sender, notification listener) use a
// socket field of the plug-in; they are started only when the dial that fills that field succeeded.
func ruleHelperLoopNeedsItsSocket(w *World, r *Report, prop, rule string) {
	f := w.Fn(prop, "pfcpiface.(*bess).SetUpfInfo")
	n := 0
	for _, g := range withClosures(f) {
		g := g
		allInstrs(g, func(i ssa.Instruction) {
			gs, ok := i.(*ssa.Go)
			if !ok {
				return
			}
			tgt := staticCallee(gs)
			if tgt == nil {
				return
			}
			// socket fields the target reads
			fields := map[string]bool{}
			for _, h := range withClosures(tgt) {
				allInstrs(h, func(j ssa.Instruction) {
					if fa, ok := j.(*ssa.FieldAddr); ok && fieldVar(fa) != nil && strings.Contains(typeName(fieldVar(fa).Type()), "net.Conn") {
						fields[fieldVar(fa).Name()] = true
					}
				})
			}
			// … or is handed by the go statement
			for _, a := range gs.Call.Args {
				if u, ok := a.(*ssa.UnOp); ok {
					if fa, ok := u.X.(*ssa.FieldAddr); ok && fieldVar(fa) != nil && strings.Contains(typeName(fieldVar(fa).Type()), "net.Conn") {
						fields[fieldVar(fa).Name()] = true
					}
				}
			}
			if len(fields) == 0 {
				return
			}
			// the dial(s) that fill those fields
			allInstrs(g, func(j ssa.Instruction) {
				c, ok := j.(*ssa.Call)
				if !ok || staticCallee(c) == nil || staticCallee(c).Name() != "Dial" {
					return
				}
				conn := extractOf(c, 0)
				fills := false
				if conn != nil && conn.Referrers() != nil {
					for _, ref := range *conn.Referrers() {
						if st, ok := ref.(*ssa.Store); ok {
							if fa, ok := st.Addr.(*ssa.FieldAddr); ok && fieldVar(fa) != nil && fields[fieldVar(fa).Name()] {
								fills = true
							}
						}
					}
				}
				if !fills {
					return
				}
				n++
				e := errResult(c)
				ok = e != nil && errGuarded(g, c, e, func(k ssa.Instruction) bool { return k == ssa.Instruction(gs) })
				r.check(ok, rule, w.FuncName(g), tgt.Name()+" is started only when its socket could be opened", w.Pos(gs.Pos()), "go statement unreachable unless the dial's err == nil", "go "+tgt.Name()+" is reachable after a failed dial of the socket it uses: the field is nil, the first packet the goroutine handles (an End Marker of an SNDEM update / a notification) dereferences it and the agent dies")
			})
		})
	}
	r.floor(rule+" helper goroutines with a socket", n, 1)
}

// ruleExpansionOnlyRead: what CreatePortRangeCartesianProduct returned is installed (or deleted) as it is: the
// worker neither stores into the list nor appends to a prefix of it (which overwrites the list in place).
func ruleExpansionOnlyRead(w *World, r *Report, prop, rule string) {
	n := 0
	for f := range w.allFuncs() {
		if !w.isRepoFunc(f) || strings.HasPrefix(w.FuncName(f), "test/") {
			continue
		}
		f := f
		allInstrs(f, func(i ssa.Instruction) {
			c, ok := i.(*ssa.Call)
			if !ok || staticCallee(c) == nil || staticCallee(c).Name() != "CreatePortRangeCartesianProduct" {
				return
			}
			v := extractOf(c, 0)
			if v == nil || v.Referrers() == nil {
				return
			}
			n++
			var bad ssa.Instruction
			var follow func(x ssa.Value, d int)
			seen := map[ssa.Value]bool{}
			follow = func(x ssa.Value, d int) {
				if x == nil || d > 4 || seen[x] || x.Referrers() == nil {
					return
				}
				seen[x] = true
				for _, ref := range *x.Referrers() {
					switch u := ref.(type) {
					case *ssa.Slice:
						if u.Referrers() != nil {
							for _, r2 := range *u.Referrers() {
								if ap, ok := r2.(*ssa.Call); ok && calleeName(ap) == "builtin.append" && len(ap.Call.Args) > 0 && ap.Call.Args[0] == ssa.Value(u) {
									bad = ap
								}
							}
						}
					case *ssa.IndexAddr:
						if u.X == x && u.Referrers() != nil {
							for _, r2 := range *u.Referrers() {
								if st, ok := r2.(*ssa.Store); ok && st.Addr == ssa.Value(u) {
									bad = st
								}
							}
						}
					case *ssa.Phi:
						follow(u, d+1)
					}
				}
			}
			follow(v, 0)
			pos := w.Pos(c.Pos())
			if bad != nil {
				pos = w.Pos(bad.Pos())
			}
			r.check(bad == nil, rule, w.FuncName(f), "the expansion is installed as it was computed", pos, "only read", "the list of rules is written to after it was computed (an append to a prefix of it — e.g. to abbreviate it for a log line — moves its tail over its middle): ports of the range are lost and others written twice")
		})
	}
	r.floor(rule+" consumers of the expansion", n, 2)
}

// ruleEveryRuleOfTheExpansionProcessed: the loop that writes (deletes) the rules of an expansion goes on to the
// next rule after each processPDR; it ends early only on a marshalling error.
func ruleEveryRuleOfTheExpansionProcessed(w *World, r *Report, prop, rule string) {
	n := 0
	for _, name := range []string{"pfcpiface.(*bess).addPDR", "pfcpiface.(*bess).delPDR"} {
		for _, g := range withClosures(w.Fn(prop, name)) {
			for _, c := range callsIn(g, func(c ssa.CallInstruction) bool { return callNamed("processPDR")(c.(ssa.Instruction)) }) {
				ins := c.(ssa.Instruction)
				// innermost loop header of the call
				var hdr *ssa.BasicBlock
				for _, h := range g.Blocks {
					if h.Dominates(ins.Block()) && inCycle(h, ins.Block()) && len(h.Preds) >= 2 {
						if hdr == nil || hdr.Dominates(h) {
							hdr = h
						}
					}
				}
				if hdr == nil {
					continue
				}
				n++
				loop := naturalLoop(hdr)
				out := reach(g, ins, func(j ssa.Instruction) bool { return !loop[j.Block()] }, nil, func(a, b *ssa.BasicBlock) bool { return b == hdr })
				pos := w.Pos(ins.Pos())
				if out != nil {
					pos = w.Pos(posNear(out))
				}
				r.check(out == nil, rule, w.FuncName(g), "after a rule of the expansion was processed the loop goes on to the next", pos, "no exit between processPDR and the loop header", "the loop can be left after processPDR (e.g. when the first delete failed 'because the PDR is gone'): the remaining rules of the expansion are never written / deleted — entries that overlap another PDR's range make exactly that first delete fail while the rest is still installed")
			}
		}
	}
	r.floor(rule+" processPDR calls in a loop", n, 2)
}

// round6pre runs before a property's own rule set. It decides shapes that are recognisably wrong and would make
// the rule set give up (exit 2) instead of reporting them. Returns true when the rule set must be skipped.
func round6pre(w *World, r *Report) bool {
	if r.Prop != "C02" {
		return false
	}
	// R02.17: only a message of a response type is handed to the waiter of an own request. Looking the
	// sequence number up before the type dispatch lets a peer's REQUEST whose sequence number happens to equal
	// that of a pending own request be swallowed as its answer: the request is never answered.
	dispatch := w.Fn("C02", "pfcpiface.(*PFCPConn).HandlePFCPMsg")
	hir := w.Fn("C02", "pfcpiface.(*PFCPConn).handleIncomingResponse")
	isMsgType := func(v ssa.Value) bool {
		c, ok := v.(*ssa.Call)
		return ok && c.Call.IsInvoke() && c.Call.Method.Name() == "MessageType"
	}
	respTypes := map[int64]bool{}
	for name, k := range msgTypeNames(w, "C02") {
		_ = name
		if strings.HasSuffix(k, "Response") {
			respTypes[name] = true
		}
	}
	bad := false
	for _, c := range callsTo(dispatch, hir) {
		ok := onlyVia(dispatch, c.(ssa.Instruction), func(a, b *ssa.BasicBlock) bool {
			x, op, y, ok := edgeFact(a, b)
			if !ok || op.String() != "==" {
				return false
			}
			var k int64
			var isK bool
			if isMsgType(x) {
				k, isK = constInt(y)
			} else if isMsgType(y) {
				k, isK = constInt(x)
			}
			return isK && respTypes[k]
		})
		if !ok {
			bad = true
			r.bad("R02.17", w.FuncName(dispatch), "only a response-type message is handed to the waiter of an own request", w.Pos(c.Pos()), "handleIncomingResponse is reached without the dispatch having found a response type: a peer's request whose sequence number equals that of a pending own request (heartbeat monitor, association setup) is taken for its answer and never answered itself")
		} else {
			r.ok("R02.17", w.FuncName(dispatch), "only a response-type message is handed to the waiter of an own request", w.Pos(c.Pos()), "behind a response-type case")
		}
	}
	return bad
}

// teidReleaseSites: where releaseAllocatedTEIDs decides that a TEID goes back. Normally the FreeID call. When the
// function first collects the TEIDs into a local slice (filled only by append) and frees every element of it in
// a second loop, the decision is taken where a TEID is appended: those appends are the sites, the appended
// value is the value freed.
func teidReleaseSites(rel *ssa.Function, free *ssa.Function) (sites []ssa.Instruction, vals []ssa.Value) {
	for _, c := range callsTo(rel, free) {
		ins := c.(ssa.Instruction)
		args := c.Common().Args
		arg := args[len(args)-1]
		var base ssa.Value
		if u, ok := arg.(*ssa.UnOp); ok {
			if ia, ok := u.X.(*ssa.IndexAddr); ok && (isRangeIndexOf(ia.Index) || isCountingIndexOf(ia.Index)) {
				base = ia.X
			}
		}
		if base == nil {
			sites, vals = append(sites, ins), append(vals, arg)
			continue
		}
		// the family of values the local slice goes through
		fam := map[ssa.Value]bool{}
		var apps []*ssa.Call
		okFam := true
		var walk func(v ssa.Value, d int)
		walk = func(v ssa.Value, d int) {
			if v == nil || fam[v] || d > 8 {
				return
			}
			fam[v] = true
			switch x := v.(type) {
			case *ssa.Phi:
				for _, e := range x.Edges {
					walk(e, d+1)
				}
			case *ssa.Call:
				if calleeName(x) == "builtin.append" && len(x.Call.Args) == 2 {
					apps = append(apps, x)
					walk(x.Call.Args[0], d+1)
				} else {
					okFam = false
				}
			case *ssa.MakeSlice:
			case *ssa.Const:
			default:
				okFam = false
			}
		}
		walk(base, 0)
		// the freeing loop visits every element: no exit from it other than its header
		if okFam && len(apps) > 0 && len(loopEarlyExits(rel, loopHeaderOf(rel, ins))) == 0 {
			for _, a := range apps {
				// the appended element: the single value stored into the var-args array
				var elem ssa.Value
				if sl, ok := a.Call.Args[1].(*ssa.Slice); ok {
					if al, ok := sl.X.(*ssa.Alloc); ok && al.Referrers() != nil {
						for _, ref := range *al.Referrers() {
							if ia, ok := ref.(*ssa.IndexAddr); ok && ia.Referrers() != nil {
								for _, r2 := range *ia.Referrers() {
									if st, ok := r2.(*ssa.Store); ok {
										elem = st.Val
									}
								}
							}
						}
					}
				}
				sites, vals = append(sites, ssa.Instruction(a)), append(vals, elem)
			}
			continue
		}
		sites, vals = append(sites, ins), append(vals, arg)
	}
	return
}

// loopHeaderOf: the innermost loop header whose loop contains ins (nil if none).
func loopHeaderOf(f *ssa.Function, ins ssa.Instruction) *ssa.BasicBlock {
	var hdr *ssa.BasicBlock
	for _, h := range f.Blocks {
		if len(h.Preds) >= 2 && h.Dominates(ins.Block()) && inCycle(h, ins.Block()) {
			if hdr == nil || hdr.Dominates(h) {
				hdr = h
			}
		}
	}
	return hdr
}
