package main

import (
	"encoding/json"
	"fmt"
	"go/ast"
	"os"
	"os/exec"
	"path/filepath"
	"sort"
	"strings"
)

// Thorough tier, part 1: replay of the seeded changes. Every change under /verif/seeded whose
// meta.json names this property is applied to a scratch copy of the analysed repository (outside
// /repo and /verif, removed afterwards) and the quick rule set is run on the copy in a child
// process. The verdict must be the one recorded when the change was confirmed ("detected" → exit 1,
// "silent" → exit 0, "not-decided" → either). A mismatch means the checker regressed: UNDECIDED
// (exit 2), never a VIOLATION — the analysed tree is not at fault.
type seedReplay struct {
	Seed     string `json:"seed"`
	Expected string `json:"expected"`
	Got      string `json:"got"`
	Rule     string `json:"first_rule,omitempty"`
}

func replaySeeds(prop, vdir, repo string) []seedReplay {
	dirs, _ := filepath.Glob(filepath.Join(vdir, "seeded", "*"))
	sort.Strings(dirs)
	exe, err := os.Executable()
	if err != nil {
		brokenf(prop, "thorough", "cannot find own executable: %v", err)
	}
	var out []seedReplay
	for _, d := range dirs {
		b, err := os.ReadFile(filepath.Join(d, "meta.json"))
		if err != nil {
			continue
		}
		var meta struct {
			Expect map[string]string `json:"thorough_expectation"`
			Patch  string            `json:"patch_used"`
		}
		if json.Unmarshal(b, &meta) != nil || meta.Expect[prop] == "" {
			continue
		}
		patch := filepath.Join(d, meta.Patch)
		if meta.Patch == "" {
			patch = filepath.Join(d, "patch.diff")
		}
		scratch, err := os.MkdirTemp("", "upfcheck-seed-")
		if err != nil {
			brokenf(prop, "thorough", "cannot create scratch directory: %v", err)
		}
		res := seedReplay{Seed: filepath.Base(d), Expected: meta.Expect[prop]}
		func() {
			defer os.RemoveAll(scratch)
			cp := exec.Command("rsync", "-a", "--exclude", ".git", strings.TrimRight(repo, "/")+"/", filepath.Join(scratch, "repo")+"/")
			if o, err := cp.CombinedOutput(); err != nil {
				brokenf(prop, "thorough", "copy failed: %v %s", err, o)
			}
			ap := exec.Command("patch", "-p1", "-s", "-i", patch)
			ap.Dir = filepath.Join(scratch, "repo")
			if o, err := ap.CombinedOutput(); err != nil {
				res.Got = "patch does not apply: " + strings.TrimSpace(string(o))
				return
			}
			child := exec.Command(exe, "-prop", prop, "-tier", "quick", "-repo", filepath.Join(scratch, "repo"), "-verif", vdir, "-out", filepath.Join(scratch, "ev"))
			child.Env = append(os.Environ(), "VERIF_TIER=quick")
			o, err := child.CombinedOutput()
			code := 0
			if ee, ok := err.(*exec.ExitError); ok {
				code = ee.ExitCode()
			} else if err != nil {
				res.Got = "child failed: " + err.Error()
				return
			}
			switch code {
			case 0:
				res.Got = "silent"
			case 1:
				res.Got = "detected"
				for _, l := range strings.Split(string(o), "\n") {
					if strings.HasPrefix(strings.TrimSpace(l), "rule=") && res.Rule == "" {
						res.Rule = strings.TrimSpace(l)
					}
				}
			default:
				res.Got = "undecided"
			}
		}()
		out = append(out, res)
	}
	return out
}

func checkReplay(prop string, rs []seedReplay) {
	for _, r := range rs {
		okR := r.Expected == r.Got || r.Expected == "not-decided" && (r.Got == "silent" || r.Got == "detected")
		if !okR {
			brokenf(prop, "thorough.seed-replay", "seeded change %s: expected %s, got %s — the rule set no longer behaves as confirmed (checker regression, not a finding about the tree)", r.Seed, r.Expected, r.Got)
		}
	}
	fmt.Printf("%s thorough: %d seeded changes replayed, all as recorded\n", prop, len(rs))
}

// Thorough tier, part 2: completeness of the IDX enumeration against the compiler. `go build
// -gcflags=-d=ssa/check_bce/debug=1` lists every index/slice operation whose bounds check the
// compiler could not remove. Each such position inside a function whose index operations the engine
// enumerated must carry an IDX obligation (same file and line): the compiler's list is an
// independent enumeration of the same sites, so a position without obligation is a hole in mine.
func bceCrossCheck(w *World, r *Report, repo string) {
	if len(r.idxFuncs) == 0 {
		return
	}
	pkgs := map[string]bool{}
	for _, v := range r.idxFuncs {
		pkgs["./"+filepath.Dir(v[0].(string))] = true
	}
	var args []string
	args = append(args, "build", "-o", os.DevNull, "-gcflags=-d=ssa/check_bce/debug=1")
	for p := range pkgs {
		args = append(args, p)
	}
	cmd := exec.Command("go", args...)
	cmd.Dir = repo
	cmd.Env = cleanEnv()
	out, _ := cmd.CombinedOutput() // the report comes on stderr; build errors are caught by the loader already
	n, inside, inlined, missing := 0, 0, 0, []string{}
	for _, l := range strings.Split(string(out), "\n") {
		if !strings.Contains(l, "Found IsInBounds") && !strings.Contains(l, "Found IsSliceInBounds") {
			continue
		}
		n++
		parts := strings.SplitN(strings.TrimSpace(l), ":", 4)
		if len(parts) < 3 {
			continue
		}
		file := strings.TrimPrefix(parts[0], "./")
		var line int
		fmt.Sscan(parts[1], &line)
		for _, v := range r.idxFuncs {
			if v[0].(string) == file && line >= v[1].(int) && line <= v[2].(int) {
				if !w.lineHasIndexSyntax(file, line) {
					// a check inside an inlined callee (library code such as Duration.String, or a repo
					// function whose own body is enumerated where it is declared), reported at the call site
					inlined++
					break
				}
				inside++
				if !r.idxLines[fmt.Sprintf("%s:%d", file, line)] && !r.idxLines[fmt.Sprintf("%s:%d", file, line-1)] && !r.idxLines[fmt.Sprintf("%s:%d", file, line+1)] {
					missing = append(missing, fmt.Sprintf("%s:%d", file, line))
				}
				break
			}
		}
	}
	if n == 0 {
		brokenf(r.Prop, "thorough.bce", "the compiler's bounds-check report is empty (go build failed?): %s", strings.TrimSpace(string(out)))
	}
	r.Extra["bce_positions_reported_by_compiler"] = n
	r.Extra["bce_positions_inside_enumerated_functions"] = inside
	r.Extra["bce_positions_from_inlined_callees"] = inlined
	r.Extra["bce_positions_without_obligation"] = missing
	if len(missing) > 0 {
		sort.Strings(missing)
		brokenf(r.Prop, "thorough.bce", "the compiler keeps a bounds check at %v but the IDX enumeration has no obligation there: the enumeration is incomplete", missing)
	}
	fmt.Printf("%s thorough: compiler bounds-check report: %d positions, %d inside enumerated functions, all carry an IDX obligation\n", r.Prop, n, inside)
}

// lineHasIndexSyntax: does the source line contain an index, slice or range expression of its own?
func (w *World) lineHasIndexSyntax(file string, line int) bool {
	found := false
	for _, p := range w.Pkgs {
		for _, f := range p.Syntax {
			name := w.Fset.Position(f.Pos()).Filename
			if !strings.HasSuffix(name, "/"+file) {
				continue
			}
			ast.Inspect(f, func(n ast.Node) bool {
				if n == nil || found {
					return false
				}
				switch x := n.(type) {
				case *ast.IndexExpr:
					if w.Fset.Position(x.Lbrack).Line == line || w.Fset.Position(x.Pos()).Line == line {
						found = true
					}
				case *ast.SliceExpr:
					if w.Fset.Position(x.Lbrack).Line == line || w.Fset.Position(x.Pos()).Line == line {
						found = true
					}
				case *ast.RangeStmt:
					if w.Fset.Position(x.Pos()).Line == line {
						found = true
					}
				}
				return true
			})
		}
	}
	return found
}
