package main

import (
	"crypto/sha256"
	"encoding/json"
	"fmt"
	"go/ast"
	"os"
	"os/exec"
	"path/filepath"
	"sort"
	"strings"
	"sync"
	"syscall"
	"time"
)

// Thorough tier, part 1: replay of the recorded changes. Two corpora are kept under /verif:
// seeded/ (changes that break a property, each with the checks that must report it) and benign/
// (changes that keep the behaviour, on which every check must stay silent). Each change is applied
// to a scratch copy of the analysed repository (outside /repo and /verif, removed afterwards) and
// the quick rule set is run on the copy in a child process. The verdict must be the recorded one
// ("detected" → exit 1, "silent" → exit 0, "not-decided" → either). A mismatch means the checker
// regressed: UNDECIDED (exit 2), never a VIOLATION — the analysed tree is not at fault.
//
// The expectations were recorded against one particular tree (seeded/BASE_TREE.json holds its
// content hash). When the analysed tree is a different one, a patch may no longer apply or may
// interact with the difference; the replay is then still run and written to the evidence, but a
// mismatch is not enforced: it says nothing about the checker and nothing about the tree.
type seedReplay struct {
	Seed     string `json:"seed"`
	Expected string `json:"expected"`
	Got      string `json:"got"`
	Rule     string `json:"first_rule,omitempty"`
}

// treeHash: sha256 over (path, sha256(content)) of every source file of the repository outside .git.
func treeHash(repo string) string {
	var files []string
	filepath.Walk(repo, func(p string, info os.FileInfo, err error) error {
		if err != nil {
			return nil
		}
		if info.IsDir() {
			if info.Name() == ".git" {
				return filepath.SkipDir
			}
			return nil
		}
		if info.Mode().IsRegular() {
			switch filepath.Ext(p) {
			case ".go", ".mod", ".sum", ".py", ".bess", ".txt", ".json":
				// what the loaders read: Go sources and module files, the BESS pipeline, P4Info, the route controller
				files = append(files, p)
			}
		}
		return nil
	})
	sort.Strings(files)
	h := sha256.New()
	for _, f := range files {
		b, err := os.ReadFile(f)
		if err != nil {
			continue
		}
		rel, _ := filepath.Rel(repo, f)
		fmt.Fprintf(h, "%s\x00%x\n", filepath.ToSlash(rel), sha256.Sum256(b))
	}
	return fmt.Sprintf("%x", h.Sum(nil))
}

func recordedBase(vdir string) string {
	b, err := os.ReadFile(filepath.Join(vdir, "seeded", "BASE_TREE.json"))
	if err != nil {
		return ""
	}
	var v struct {
		Tree string `json:"tree"`
	}
	json.Unmarshal(b, &v)
	return v.Tree
}

// The scratch copy lives at a path that depends only on the slot: the Go build cache keys compiled
// packages by their directory, so a fresh random directory per replay would add a full set of cache
// entries for the repository's packages every time (tens of MB × thousands of replays).
func replayOne(exe, prop, vdir, repo, patch string, slot int) (got, rule string) {
	var scratch string
	var err error
	if slot >= 0 {
		scratch = filepath.Join(os.TempDir(), fmt.Sprintf("upfcheck-replay-%d", slot))
		os.RemoveAll(scratch)
		err = os.MkdirAll(scratch, 0o755)
	} else {
		scratch, err = os.MkdirTemp("", "upfcheck-seed-")
	}
	if err != nil {
		return "cannot create scratch directory: " + err.Error(), ""
	}
	defer os.RemoveAll(scratch)
	cp := exec.Command("rsync", "-a", "--exclude", ".git", strings.TrimRight(repo, "/")+"/", filepath.Join(scratch, "repo")+"/")
	if o, err := cp.CombinedOutput(); err != nil {
		return fmt.Sprintf("copy failed: %v %s", err, o), ""
	}
	ap := exec.Command("patch", "-p1", "-s", "-i", patch)
	ap.Dir = filepath.Join(scratch, "repo")
	if o, err := ap.CombinedOutput(); err != nil {
		return "patch does not apply: " + strings.TrimSpace(string(o)), ""
	}
	child := exec.Command(exe, "-prop", prop, "-tier", "quick", "-repo", filepath.Join(scratch, "repo"), "-verif", vdir, "-out", filepath.Join(scratch, "ev"))
	child.Env = append(os.Environ(), "VERIF_TIER=quick")
	o, err := child.CombinedOutput()
	code := 0
	if ee, ok := err.(*exec.ExitError); ok {
		code = ee.ExitCode()
	} else if err != nil {
		return "child failed: " + err.Error(), ""
	}
	switch code {
	case 0:
		return "silent", ""
	case 1:
		for _, l := range strings.Split(string(o), "\n") {
			if strings.HasPrefix(strings.TrimSpace(l), "rule=") && rule == "" {
				rule = strings.TrimSpace(l)
			}
		}
		return "detected", rule
	}
	for _, l := range strings.Split(string(o), "\n") {
		if strings.HasPrefix(l, "UNDECIDED") && rule == "" {
			rule = l
		}
	}
	return "undecided", rule
}

func replaySeeds(prop, vdir, repo string) []seedReplay {
	exe, err := os.Executable()
	if err != nil {
		brokenf(prop, "thorough", "cannot find own executable: %v", err)
	}
	type job struct {
		name, patch, expect string
	}
	var jobs []job
	dirs, _ := filepath.Glob(filepath.Join(vdir, "seeded", "*"))
	sort.Strings(dirs)
	for _, d := range dirs {
		b, err := os.ReadFile(filepath.Join(d, "meta.json"))
		if err != nil {
			continue
		}
		var meta struct {
			Expect map[string]string `json:"thorough_expectation"`
			Patch  string            `json:"patch_used"`
		}
		if json.Unmarshal(b, &meta) != nil || meta.Expect[prop] == "" {
			continue
		}
		patch := filepath.Join(d, meta.Patch)
		if meta.Patch == "" {
			patch = filepath.Join(d, "patch.diff")
		}
		jobs = append(jobs, job{filepath.Base(d), patch, meta.Expect[prop]})
	}
	// behaviour-preserving changes: every check stays silent on every one of them
	bdirs, _ := filepath.Glob(filepath.Join(vdir, "benign", "*", "patch.diff"))
	sort.Strings(bdirs)
	anchored := anchorFiles(prop, vdir)
	for _, p := range bdirs {
		id := filepath.Base(filepath.Dir(p))
		// the ones written against this property, and the ones that touch a file the property is anchored in
		// (the full 100 × 20 matrix is scripts/benign_matrix.sh; it was silent when the corpus was recorded)
		rel := strings.HasPrefix(id, prop+"-")
		if b, err := os.ReadFile(p); err == nil && !rel {
			for _, l := range strings.Split(string(b), "\n") {
				if strings.HasPrefix(l, "+++ b/") && anchored[strings.TrimSpace(strings.TrimPrefix(l, "+++ b/"))] {
					rel = true
				}
			}
		}
		if rel {
			expect := "silent"
			// a false alarm of this checker that is known and not yet repaired is said so beside the patch
			// (benign/<id>/known_open.json: property -> what fires and why it is wrong); the replay then
			// accepts either verdict for that property instead of pretending silence. DESIGN.md §9 lists it.
			if kb, err := os.ReadFile(filepath.Join(filepath.Dir(p), "known_open.json")); err == nil {
				var open map[string]string
				if json.Unmarshal(kb, &open) == nil {
					if _, ok := open[prop]; ok {
						expect = "not-decided"
					}
				}
			}
			jobs = append(jobs, job{"benign/" + id, p, expect})
		}
	}
	out := make([]seedReplay, len(jobs))
	var wg sync.WaitGroup
	sem := make(chan struct{}, 8)
	for i, j := range jobs {
		wg.Add(1)
		go func(i int, j job) {
			defer wg.Done()
			sem <- struct{}{}
			defer func() { <-sem }()
			// machine-wide cap: thorough runs of several properties may be started side by side
			slot, release := acquireSlot()
			defer release()
			got, rule := replayOne(exe, prop, vdir, repo, j.patch, slot)
			out[i] = seedReplay{Seed: j.name, Expected: j.expect, Got: got, Rule: rule}
		}(i, j)
	}
	wg.Wait()
	return out
}

// acquireSlot takes one of 12 advisory file locks in the temp directory, so that at most 12 replay
// children run on the machine at a time however many thorough checks were started (each child is a
// full load of the repository, about 1.2 GB).
func acquireSlot() (int, func()) {
	for {
		for i := 0; i < 12; i++ {
			f, err := os.OpenFile(filepath.Join(os.TempDir(), fmt.Sprintf("upfcheck-replay-slot-%d.lock", i)), os.O_CREATE|os.O_RDWR, 0o666)
			if err != nil {
				return -1, func() {} // no temp directory to coordinate in: run unthrottled
			}
			if syscall.Flock(int(f.Fd()), syscall.LOCK_EX|syscall.LOCK_NB) == nil {
				return i, func() { syscall.Flock(int(f.Fd()), syscall.LOCK_UN); f.Close() }
			}
			f.Close()
		}
		time.Sleep(100 * time.Millisecond)
	}
}

// anchorFiles: the files properties.jsonl anchors the property in.
func anchorFiles(prop, vdir string) map[string]bool {
	out := map[string]bool{}
	b, err := os.ReadFile(filepath.Join(vdir, "properties.jsonl"))
	if err != nil {
		return out
	}
	for _, l := range strings.Split(string(b), "\n") {
		var p struct {
			ID      string `json:"id"`
			Anchors struct {
				Files []string `json:"files"`
			} `json:"anchors"`
		}
		if json.Unmarshal([]byte(l), &p) == nil && p.ID == prop {
			for _, f := range p.Anchors.Files {
				out[f] = true
			}
		}
	}
	return out
}

func checkReplay(prop string, rs []seedReplay, enforce bool) {
	mismatch := 0
	for _, r := range rs {
		okR := r.Expected == r.Got || r.Expected == "not-decided" && (r.Got == "silent" || r.Got == "detected")
		if okR {
			continue
		}
		mismatch++
		if enforce {
			brokenf(prop, "thorough.seed-replay", "recorded change %s: expected %s, got %s (%s) — the rule set no longer behaves as confirmed (checker regression, not a finding about the tree)", r.Seed, r.Expected, r.Got, r.Rule)
		}
	}
	if enforce {
		fmt.Printf("%s thorough: %d recorded changes replayed, all as recorded\n", prop, len(rs))
	} else {
		fmt.Printf("%s thorough: %d recorded changes replayed on a tree other than the one the expectations were recorded on; %d differ (listed in the evidence, not enforced)\n", prop, len(rs), mismatch)
	}
}

// Thorough tier, part 2: completeness of the IDX enumeration against the compiler. `go build
// -gcflags=-d=ssa/check_bce/debug=1` lists every index/slice operation whose bounds check the
// compiler could not remove. Each such position inside a function whose index operations the engine
// enumerated must carry an IDX obligation (same file and line): the compiler's list is an
// independent enumeration of the same sites, so a position without obligation is a hole in mine.
func bceCrossCheck(w *World, r *Report, repo string) {
	if len(r.idxFuncs) == 0 {
		return
	}
	pkgs := map[string]bool{}
	for _, v := range r.idxFuncs {
		pkgs["./"+filepath.Dir(v[0].(string))] = true
	}
	var args []string
	args = append(args, "build", "-o", os.DevNull, "-gcflags=-d=ssa/check_bce/debug=1")
	for p := range pkgs {
		args = append(args, p)
	}
	cmd := exec.Command("go", args...)
	cmd.Dir = repo
	cmd.Env = cleanEnv()
	out, _ := cmd.CombinedOutput() // the report comes on stderr; build errors are caught by the loader already
	n, inside, inlined, missing := 0, 0, 0, []string{}
	for _, l := range strings.Split(string(out), "\n") {
		if !strings.Contains(l, "Found IsInBounds") && !strings.Contains(l, "Found IsSliceInBounds") {
			continue
		}
		n++
		parts := strings.SplitN(strings.TrimSpace(l), ":", 4)
		if len(parts) < 3 {
			continue
		}
		file := strings.TrimPrefix(parts[0], "./")
		var line int
		fmt.Sscan(parts[1], &line)
		for _, v := range r.idxFuncs {
			if v[0].(string) == file && line >= v[1].(int) && line <= v[2].(int) {
				if !w.lineHasIndexSyntax(file, line) {
					// a check inside an inlined callee (library code such as Duration.String, or a repo
					// function whose own body is enumerated where it is declared), reported at the call site
					inlined++
					break
				}
				inside++
				if !r.idxLines[fmt.Sprintf("%s:%d", file, line)] && !r.idxLines[fmt.Sprintf("%s:%d", file, line-1)] && !r.idxLines[fmt.Sprintf("%s:%d", file, line+1)] {
					missing = append(missing, fmt.Sprintf("%s:%d", file, line))
				}
				break
			}
		}
	}
	if n == 0 {
		brokenf(r.Prop, "thorough.bce", "the compiler's bounds-check report is empty (go build failed?): %s", strings.TrimSpace(string(out)))
	}
	r.Extra["bce_positions_reported_by_compiler"] = n
	r.Extra["bce_positions_inside_enumerated_functions"] = inside
	r.Extra["bce_positions_from_inlined_callees"] = inlined
	r.Extra["bce_positions_without_obligation"] = missing
	if len(missing) > 0 {
		sort.Strings(missing)
		brokenf(r.Prop, "thorough.bce", "the compiler keeps a bounds check at %v but the IDX enumeration has no obligation there: the enumeration is incomplete", missing)
	}
	fmt.Printf("%s thorough: compiler bounds-check report: %d positions, %d inside enumerated functions, all carry an IDX obligation\n", r.Prop, n, inside)
}

// lineHasIndexSyntax: does the source line contain an index, slice or range expression of its own?
func (w *World) lineHasIndexSyntax(file string, line int) bool {
	found := false
	for _, p := range w.Pkgs {
		for _, f := range p.Syntax {
			name := w.Fset.Position(f.Pos()).Filename
			if !strings.HasSuffix(name, "/"+file) {
				continue
			}
			ast.Inspect(f, func(n ast.Node) bool {
				if n == nil || found {
					return false
				}
				switch x := n.(type) {
				case *ast.IndexExpr:
					if w.Fset.Position(x.Lbrack).Line == line || w.Fset.Position(x.Pos()).Line == line {
						found = true
					}
				case *ast.SliceExpr:
					if w.Fset.Position(x.Lbrack).Line == line || w.Fset.Position(x.Pos()).Line == line {
						found = true
					}
				case *ast.RangeStmt:
					if w.Fset.Position(x.Pos()).Line == line {
						found = true
					}
				}
				return true
			})
		}
	}
	return found
}
