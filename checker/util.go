package main

import "go/types"

var errorType = types.Universe.Lookup("error").Type()

func isErrorType(t types.Type) bool { return types.Identical(t, errorType) }

// placeholder until the mod-set analysis (avail.go) defines it
type modSet struct {
	fields map[*types.Var]bool // struct fields stored to
	elems  map[string]bool     // element/pointee types stored to through IndexAddr or plain pointers
	all    bool                // unknown effects
}

const iePkg = "github.com/wmnsk/go-pfcp/ie"
const msgPkg = "github.com/wmnsk/go-pfcp/message"
