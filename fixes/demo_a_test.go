// SPDX-License-Identifier: Apache-2.0

package pfcpiface

// Demonstration: what the UPF allocated for a session (a TEID chosen through the F-TEID CHOOSE flag,
// a UE IP address chosen through the CHV4 flag) must be free again after the session was deleted,
// also when the session was modified with Update PDR IEs in between.
//
// The test drives the real message handlers through (*PFCPConn).HandlePFCPMsg with encoded PFCP
// messages; only the datapath, the socket and the metrics sink are fakes.

import (
	"math/rand"
	"net"
	"sync"
	"testing"
	"time"

	"github.com/prometheus/client_golang/prometheus"
	"github.com/wmnsk/go-pfcp/ie"
	"github.com/wmnsk/go-pfcp/message"

	"github.com/omec-project/upf-epc/pfcpiface/metrics"
)

// demoADatapath accepts everything.
type demoADatapath struct{}

func (demoADatapath) Exit()                                                        {}
func (demoADatapath) SetUpfInfo(u *upf, conf *Conf)                                {}
func (demoADatapath) AddSliceInfo(sliceInfo *SliceInfo) error                      { return nil }
func (demoADatapath) SendEndMarkers(endMarkerList *[][]byte) error                 { return nil }
func (demoADatapath) IsConnected(accessIP *net.IP) bool                            { return true }
func (demoADatapath) SummaryLatencyJitter(*upfCollector, chan<- prometheus.Metric) {}
func (demoADatapath) PortStats(*upfCollector, chan<- prometheus.Metric)            {}
func (demoADatapath) SummaryGtpuLatency(*upfCollector, chan<- prometheus.Metric)   {}
func (demoADatapath) SessionStats(*PfcpNodeCollector, chan<- prometheus.Metric) error {
	return nil
}

func (demoADatapath) SendMsgToUPF(upfMsgType, PacketForwardingRules, PacketForwardingRules) uint8 {
	return ie.CauseRequestAccepted
}

// demoAMetrics swallows the metrics.
type demoAMetrics struct{}

func (demoAMetrics) SaveMessages(*metrics.Message) {}
func (demoAMetrics) SaveSessions(*metrics.Session) {}
func (demoAMetrics) Stop() error                   { return nil }

// demoAConn is the "socket": it records what the agent sends.
type demoAConn struct {
	mu   sync.Mutex
	sent [][]byte
}

func (c *demoAConn) Read([]byte) (int, error) { select {} }
func (c *demoAConn) Write(b []byte) (int, error) {
	c.mu.Lock()
	defer c.mu.Unlock()
	c.sent = append(c.sent, append([]byte(nil), b...))

	return len(b), nil
}
func (c *demoAConn) Close() error        { return nil }
func (c *demoAConn) LocalAddr() net.Addr { return &net.UDPAddr{IP: net.IPv4(127, 0, 0, 1), Port: 8805} }
func (c *demoAConn) RemoteAddr() net.Addr {
	return &net.UDPAddr{IP: net.IPv4(127, 0, 0, 2), Port: 8805}
}
func (c *demoAConn) SetDeadline(time.Time) error      { return nil }
func (c *demoAConn) SetReadDeadline(time.Time) error  { return nil }
func (c *demoAConn) SetWriteDeadline(time.Time) error { return nil }

// last returns the last message the agent sent and forgets it.
func (c *demoAConn) last(t *testing.T) message.Message {
	t.Helper()
	c.mu.Lock()
	defer c.mu.Unlock()

	if len(c.sent) == 0 {
		t.Fatalf("the agent sent no reply")
	}

	b := c.sent[len(c.sent)-1]
	c.sent = nil

	m, err := message.Parse(b)
	if err != nil {
		t.Fatalf("the reply of the agent cannot be decoded: %v", err)
	}

	return m
}

const (
	demoASMFNodeID  = "198.18.1.1"
	demoAAccessIP   = "198.18.0.1"
	demoAPool       = "10.250.0.0/30" // two usable addresses: .1 and .2
	demoAPoolSize   = 2
	demoAUplinkPDR  = 1
	demoADownlnkPDR = 2
	demoAUplinkFAR  = 1
	demoADownlnkFAR = 2
)

type demoAEnv struct {
	conn  *demoAConn
	pConn *PFCPConn
	upf   *upf
	seq   uint32
}

func newDemoAEnv(t *testing.T) *demoAEnv {
	t.Helper()

	pool, err := NewIPPool(demoAPool)
	if err != nil {
		t.Fatalf("NewIPPool: %v", err)
	}

	if len(pool.freePool) != demoAPoolSize {
		t.Fatalf("test setup: pool has %d addresses, want %d", len(pool.freePool), demoAPoolSize)
	}

	u := &upf{
		enableUeIPAlloc: true,
		ippoolCidr:      demoAPool,
		ippool:          pool,
		accessIP:        net.ParseIP(demoAAccessIP).To4(),
		coreIP:          net.ParseIP("198.18.2.1").To4(),
		fteidGenerator:  NewFTEIDGenerator(),
		datapath:        demoADatapath{},
		respTimeout:     time.Second,
		readTimeout:     time.Second,
	}

	conn := &demoAConn{}
	pConn := &PFCPConn{
		Conn:           conn,
		ts:             recoveryTS{local: time.Now()},
		rng:            rand.New(rand.NewSource(1)), // #nosec G404
		maxRetries:     100,
		store:          NewInMemoryStore(),
		upf:            u,
		done:           make(chan string, 1),
		shutdown:       make(chan struct{}),
		InstrumentPFCP: demoAMetrics{},
		hbReset:        make(chan struct{}, 100),
	}
	pConn.setLocalNodeID("")

	e := &demoAEnv{conn: conn, pConn: pConn, upf: u}

	// PFCP association
	e.send(t, message.NewAssociationSetupRequest(e.nextSeq(),
		ie.NewNodeID(demoASMFNodeID, "", ""),
		ie.NewRecoveryTimeStamp(time.Now()),
	))

	asres, ok := conn.last(t).(*message.AssociationSetupResponse)
	if !ok {
		t.Fatalf("no Association Setup Response")
	}

	if c, err := asres.Cause.Cause(); err != nil || c != ie.CauseRequestAccepted {
		t.Fatalf("association not accepted: cause %v, %v", c, err)
	}

	return e
}

func (e *demoAEnv) nextSeq() uint32 {
	e.seq++
	return e.seq
}

// send encodes the message and hands the bytes to the agent, as the read loop of Serve does.
func (e *demoAEnv) send(t *testing.T, m message.Message) {
	t.Helper()

	b := make([]byte, m.MarshalLen())
	if err := m.MarshalTo(b); err != nil {
		t.Fatalf("cannot encode %s: %v", m.MessageTypeName(), err)
	}

	e.pConn.HandlePFCPMsg(b)
}

type demoASession struct {
	localSEID uint64
	teid      uint32
	teidIP    net.IP
	ueIP      net.IP
}

// establish sets up a session: the UPF is to choose the TEID of the uplink PDR and the UE IP address.
func (e *demoAEnv) establish(t *testing.T, remoteSEID uint64) (s demoASession, accepted bool) {
	t.Helper()

	e.send(t, message.NewSessionEstablishmentRequest(0, 0, 0, e.nextSeq(), 0,
		ie.NewNodeID(demoASMFNodeID, "", ""),
		ie.NewFSEID(remoteSEID, net.ParseIP(demoASMFNodeID), nil),
		ie.NewCreatePDR(
			ie.NewPDRID(demoAUplinkPDR),
			ie.NewPrecedence(100),
			ie.NewPDI(
				ie.NewSourceInterface(ie.SrcInterfaceAccess),
				ie.NewFTEID(0x05 /* V4 | CH */, 0, nil, nil, 0),
			),
			ie.NewOuterHeaderRemoval(0, 0),
			ie.NewFARID(demoAUplinkFAR),
		),
		ie.NewCreatePDR(
			ie.NewPDRID(demoADownlnkPDR),
			ie.NewPrecedence(100),
			ie.NewPDI(
				ie.NewSourceInterface(ie.SrcInterfaceCore),
				ie.NewUEIPAddress(0x12 /* V4 | CHV4 */, "", "", 0, 0),
			),
			ie.NewFARID(demoADownlnkFAR),
		),
		ie.NewCreateFAR(
			ie.NewFARID(demoAUplinkFAR),
			ie.NewApplyAction(ActionForward),
			ie.NewForwardingParameters(ie.NewDestinationInterface(ie.DstInterfaceCore)),
		),
		ie.NewCreateFAR(
			ie.NewFARID(demoADownlnkFAR),
			ie.NewApplyAction(ActionDrop),
		),
	))

	seres, ok := e.conn.last(t).(*message.SessionEstablishmentResponse)
	if !ok {
		t.Fatalf("no Session Establishment Response")
	}

	if c, err := seres.Cause.Cause(); err != nil || c != ie.CauseRequestAccepted {
		t.Logf("Session Establishment (remote SEID %d) refused with cause %d", remoteSEID, c)
		return s, false
	}

	fseid, err := seres.UPFSEID.FSEID()
	if err != nil {
		t.Fatalf("no UP F-SEID in the response: %v", err)
	}

	s.localSEID = fseid.SEID

	for _, created := range seres.CreatedPDR {
		if f, err := created.FTEID(); err == nil {
			s.teid, s.teidIP = f.TEID, f.IPv4Address
		}

		if a, err := created.UEIPAddress(); err == nil {
			s.ueIP = a.IPv4Address
		}
	}

	if s.teid == 0 || s.ueIP == nil {
		t.Fatalf("the response does not report the TEID / UE IP the UPF chose: %+v", s)
	}

	return s, true
}

// modify repeats, in Update PDR IEs, the concrete values the UPF reported (no CHOOSE flags),
// e.g. what an SMF sends when it changes the FAR of the PDRs or re-sends them after a handover.
func (e *demoAEnv) modify(t *testing.T, s demoASession) {
	t.Helper()

	e.send(t, message.NewSessionModificationRequest(0, 0, s.localSEID, e.nextSeq(), 0,
		ie.NewUpdatePDR(
			ie.NewPDRID(demoAUplinkPDR),
			ie.NewPrecedence(100),
			ie.NewPDI(
				ie.NewSourceInterface(ie.SrcInterfaceAccess),
				ie.NewFTEID(0x01 /* V4 */, s.teid, s.teidIP, nil, 0),
			),
			ie.NewOuterHeaderRemoval(0, 0),
			ie.NewFARID(demoAUplinkFAR),
		),
		ie.NewUpdatePDR(
			ie.NewPDRID(demoADownlnkPDR),
			ie.NewPrecedence(100),
			ie.NewPDI(
				ie.NewSourceInterface(ie.SrcInterfaceCore),
				ie.NewUEIPAddress(0x02 /* V4 */, s.ueIP.String(), "", 0, 0),
			),
			ie.NewFARID(demoADownlnkFAR),
		),
	))

	smres, ok := e.conn.last(t).(*message.SessionModificationResponse)
	if !ok {
		t.Fatalf("no Session Modification Response")
	}

	if c, err := smres.Cause.Cause(); err != nil || c != ie.CauseRequestAccepted {
		t.Fatalf("Session Modification refused: cause %v, %v", c, err)
	}
}

func (e *demoAEnv) remove(t *testing.T, s demoASession) {
	t.Helper()

	e.send(t, message.NewSessionDeletionRequest(0, 0, s.localSEID, e.nextSeq(), 0))

	sdres, ok := e.conn.last(t).(*message.SessionDeletionResponse)
	if !ok {
		t.Fatalf("no Session Deletion Response")
	}

	if c, err := sdres.Cause.Cause(); err != nil || c != ie.CauseRequestAccepted {
		t.Fatalf("Session Deletion refused: cause %v, %v", c, err)
	}

	if _, ok := e.pConn.store.GetSession(s.localSEID); ok {
		t.Fatalf("session %d still stored after its deletion", s.localSEID)
	}
}

// checkAllReleased verifies that nothing of the deleted session is still allocated.
func (e *demoAEnv) checkAllReleased(t *testing.T, s demoASession) {
	t.Helper()

	if e.upf.fteidGenerator.IsAllocated(s.teid) {
		t.Errorf("LEAK: TEID %d chosen by the UPF for session %d is still allocated in the FTEIDGenerator after the Session Deletion",
			s.teid, s.localSEID)
	}

	e.upf.ippool.mu.Lock()
	ip, held := e.upf.ippool.inventory[s.localSEID]
	free := len(e.upf.ippool.freePool)
	e.upf.ippool.mu.Unlock()

	if held {
		t.Errorf("LEAK: UE IP %v is still allocated to the deleted session %d in the IPPool", ip, s.localSEID)
	}

	if free != demoAPoolSize {
		t.Errorf("LEAK: the IPPool has %d free addresses after the Session Deletion, want %d (no session left)",
			free, demoAPoolSize)
	}
}

// Control: without a modification everything is given back (shows that the harness is sound).
func TestDemoA_EstablishDelete_ReleasesAllocations(t *testing.T) {
	e := newDemoAEnv(t)

	s, ok := e.establish(t, 1000)
	if !ok {
		t.Fatalf("Session Establishment refused")
	}

	if !e.upf.fteidGenerator.IsAllocated(s.teid) {
		t.Fatalf("test setup: TEID %d reported to the SMF is not allocated in the generator", s.teid)
	}

	e.remove(t, s)
	e.checkAllReleased(t, s)
}

// The defect: with an Update PDR in between, the allocations survive the session.
func TestDemoA_EstablishUpdatePDRDelete_ReleasesAllocations(t *testing.T) {
	e := newDemoAEnv(t)

	s, ok := e.establish(t, 1000)
	if !ok {
		t.Fatalf("Session Establishment refused")
	}

	e.modify(t, s)

	// while the session lives its allocations must of course stay
	if !e.upf.fteidGenerator.IsAllocated(s.teid) {
		t.Errorf("TEID %d of the live session is no longer allocated after the modification", s.teid)
	}

	if _, held := e.upf.ippool.inventory[s.localSEID]; !held {
		t.Errorf("UE IP of the live session is no longer allocated after the modification")
	}

	e.remove(t, s)
	e.checkAllReleased(t, s)
}

// The consequence: attach / modify / detach cycles exhaust the pool although no session is left.
func TestDemoA_Cycles_DoNotExhaustThePool(t *testing.T) {
	e := newDemoAEnv(t)

	for cycle := 1; cycle <= demoAPoolSize+1; cycle++ {
		s, ok := e.establish(t, uint64(1000+cycle))
		if !ok {
			t.Fatalf("LEAK: cycle %d: Session Establishment refused although no session exists (pool: %v; TEIDs in use: %d)",
				cycle, e.upf.ippool, len(e.upf.fteidGenerator.usedMap))
		}

		e.modify(t, s)
		e.remove(t, s)
	}

	if n := len(e.upf.fteidGenerator.usedMap); n != 0 {
		t.Errorf("LEAK: %d TEIDs still allocated in the FTEIDGenerator with no session left", n)
	}
}
