// SPDX-License-Identifier: Apache-2.0

package pfcpiface

// Demonstration: a GTP tunnel peer that could not be installed (the table entry cannot be built, or
// the P4Runtime write fails) must not consume a tunnel peer ID: (*UP4).addOrUpdateGTPTunnelPeer has
// to give the ID it took from up4.tunnelPeerIDsPool back.
//
// The real UP4 / P4rtTranslator / P4rtClient code runs; only the gRPC stub below the P4rtClient
// (p4.P4RuntimeClient) is a fake, so no network is needed.

import (
	"context"
	"errors"
	"net"
	"testing"

	p4ConfigV1 "github.com/p4lang/p4runtime/go/p4/config/v1"
	p4 "github.com/p4lang/p4runtime/go/p4/v1"
	"google.golang.org/grpc"

	"github.com/omec-project/upf-epc/internal/p4constants"
)

// demoBStub is the gRPC stub of the switch: only Write is implemented.
type demoBStub struct {
	p4.P4RuntimeClient // nil: any other call would panic, none is expected
	fail               bool
	writes             int
}

func (s *demoBStub) Write(context.Context, *p4.WriteRequest, ...grpc.CallOption) (*p4.WriteResponse, error) {
	s.writes++
	if s.fail {
		return nil, errors.New("demo: the switch refuses the write")
	}

	return &p4.WriteResponse{}, nil
}

// demoBTunnelPeersP4Info is the part of the UP4 P4Info that the tunnel_peers table needs.
func demoBTunnelPeersP4Info() *p4ConfigV1.P4Info {
	return &p4ConfigV1.P4Info{
		Tables: []*p4ConfigV1.Table{{
			Preamble: &p4ConfigV1.Preamble{Id: p4constants.TablePreQosPipeTunnelPeers, Name: "PreQosPipe.tunnel_peers"},
			MatchFields: []*p4ConfigV1.MatchField{
				{Id: 1, Name: FieldTunnelPeerID, Bitwidth: 8, Match: &p4ConfigV1.MatchField_MatchType_{MatchType: p4ConfigV1.MatchField_EXACT}},
			},
			ActionRefs: []*p4ConfigV1.ActionRef{{Id: p4constants.ActionPreQosPipeLoadTunnelParam}},
			Size:       256,
		}},
		Actions: []*p4ConfigV1.Action{{
			Preamble: &p4ConfigV1.Preamble{Id: p4constants.ActionPreQosPipeLoadTunnelParam, Name: "PreQosPipe.load_tunnel_param"},
			Params: []*p4ConfigV1.Action_Param{
				{Id: 1, Name: FieldTunnelSrcAddress, Bitwidth: 32},
				{Id: 2, Name: FieldTunnelDstAddress, Bitwidth: 32},
				{Id: 3, Name: FieldTunnelSrcPort, Bitwidth: 16},
			},
		}},
	}
}

func newDemoBUP4(p4info *p4ConfigV1.P4Info, stub *demoBStub) *UP4 {
	up4 := &UP4{
		accessIP:       &net.IPNet{IP: net.ParseIP("198.18.0.1").To4(), Mask: net.CIDRMask(32, 32)},
		p4RtTranslator: newP4RtTranslator(p4info),
	}

	if stub != nil {
		up4.p4client = &P4rtClient{client: stub, deviceID: 1, P4Info: p4info}
	}

	up4.initTunnelPeerIDs()

	return up4
}

func demoBFAR(n int) far {
	return far{
		farID:        uint32(n),
		fseID:        uint64(1000 + n),
		applyAction:  ActionForward,
		dstIntf:      1, // access
		tunnelType:   1,
		tunnelIP4Src: ip2int(net.ParseIP("198.18.0.1")),
		tunnelIP4Dst: ip2int(net.ParseIP("198.19.0.0")) + uint32(n), // a different gNB per n
		tunnelTEID:   uint32(100 + n),
		tunnelPort:   tunnelGTPUPort,
	}
}

// checkDemoBIDs verifies the bookkeeping invariant: every tunnel peer ID (2..254) is exactly once
// either free (in the pool) or held by a registered tunnel peer.
func checkDemoBIDs(t *testing.T, up4 *UP4) {
	t.Helper()

	seen := make(map[uint8]string)

	for _, id := range up4.tunnelPeerIDsPool {
		if where, dup := seen[id]; dup {
			t.Errorf("tunnel peer ID %d is twice accounted for: in the pool and %s", id, where)
		}

		seen[id] = "in the pool"
	}

	for params, peer := range up4.tunnelPeerIDs {
		if where, dup := seen[peer.id]; dup {
			t.Errorf("tunnel peer ID %d of the registered peer %v is also %s", peer.id, params, where)
		}

		seen[peer.id] = "held by a registered peer"
	}

	lost := 0

	for id := 2; id < maxGTPTunnelPeerIDs+2; id++ {
		if _, ok := seen[uint8(id)]; !ok {
			lost++
		}
	}

	if lost != 0 {
		t.Errorf("LEAK: %d tunnel peer ID(s) are neither free nor held by a registered tunnel peer", lost)
	}
}

// Control: the good path takes one ID and removing the peer gives it back.
func TestDemoB_Control_SuccessfulInsertAndRemove(t *testing.T) {
	stub := &demoBStub{}
	up4 := newDemoBUP4(demoBTunnelPeersP4Info(), stub)
	before := len(up4.tunnelPeerIDsPool)

	if before != maxGTPTunnelPeerIDs {
		t.Fatalf("test setup: pool has %d IDs, want %d", before, maxGTPTunnelPeerIDs)
	}

	if err := up4.addOrUpdateGTPTunnelPeer(demoBFAR(1)); err != nil {
		t.Fatalf("addOrUpdateGTPTunnelPeer: %v", err)
	}

	if got := len(up4.tunnelPeerIDsPool); got != before-1 || len(up4.tunnelPeerIDs) != 1 || stub.writes != 1 {
		t.Fatalf("after a successful insert: pool %d (want %d), registered peers %d (want 1), writes %d (want 1)",
			got, before-1, len(up4.tunnelPeerIDs), stub.writes)
	}

	checkDemoBIDs(t, up4)

	up4.removeGTPTunnelPeer(demoBFAR(1))

	if got := len(up4.tunnelPeerIDsPool); got != before || len(up4.tunnelPeerIDs) != 0 {
		t.Fatalf("after the removal: pool %d (want %d), registered peers %d (want 0)", got, before, len(up4.tunnelPeerIDs))
	}

	checkDemoBIDs(t, up4)
}

// The entry cannot be built (P4Info of the switch does not know the table): no ID may be lost.
func TestDemoB_BuildEntryFails_IDReturned(t *testing.T) {
	up4 := newDemoBUP4(&p4ConfigV1.P4Info{}, nil)
	before := len(up4.tunnelPeerIDsPool)

	if err := up4.addOrUpdateGTPTunnelPeer(demoBFAR(1)); err == nil {
		t.Fatalf("test setup: addOrUpdateGTPTunnelPeer succeeded with an empty P4Info")
	}

	if got := len(up4.tunnelPeerIDsPool); got != before {
		t.Errorf("LEAK: %d free tunnel peer IDs after the failed call, %d before it", got, before)
	}

	if n := len(up4.tunnelPeerIDs); n != 0 {
		t.Errorf("%d tunnel peer(s) registered after the failed call, want none", n)
	}

	checkDemoBIDs(t, up4)
}

// The P4Runtime write fails (switch unreachable / refuses the entry): no ID may be lost.
func TestDemoB_WriteFails_IDReturned(t *testing.T) {
	stub := &demoBStub{fail: true}
	up4 := newDemoBUP4(demoBTunnelPeersP4Info(), stub)
	before := len(up4.tunnelPeerIDsPool)

	if err := up4.addOrUpdateGTPTunnelPeer(demoBFAR(1)); err == nil {
		t.Fatalf("test setup: addOrUpdateGTPTunnelPeer succeeded although the write failed")
	}

	if stub.writes != 1 {
		t.Fatalf("test setup: %d writes reached the switch stub, want 1", stub.writes)
	}

	if got := len(up4.tunnelPeerIDsPool); got != before {
		t.Errorf("LEAK: %d free tunnel peer IDs after the failed write, %d before it", got, before)
	}

	if n := len(up4.tunnelPeerIDs); n != 0 {
		t.Errorf("%d tunnel peer(s) registered after the failed write, want none", n)
	}

	checkDemoBIDs(t, up4)
}

// The consequence: after enough failed INSERTs no tunnel peer can be created any more,
// although none exists.
func TestDemoB_FailedInserts_DoNotExhaustThePool(t *testing.T) {
	stub := &demoBStub{fail: true}
	up4 := newDemoBUP4(demoBTunnelPeersP4Info(), stub)

	for i := 1; i <= maxGTPTunnelPeerIDs; i++ {
		if err := up4.addOrUpdateGTPTunnelPeer(demoBFAR(i)); err == nil {
			t.Fatalf("test setup: call %d succeeded although the write failed", i)
		}
	}

	// the switch is healthy again
	stub.fail = false

	if err := up4.addOrUpdateGTPTunnelPeer(demoBFAR(1)); err != nil {
		t.Errorf("LEAK: no tunnel peer can be created after %d failed attempts, although none exists "+
			"(free IDs: %d, registered peers: %d): %v",
			maxGTPTunnelPeerIDs, len(up4.tunnelPeerIDsPool), len(up4.tunnelPeerIDs), err)
	}

	checkDemoBIDs(t, up4)
}

// A failed MODIFY for a peer that exists already must leave its ID alone (neither lost nor freed).
func TestDemoB_WriteFailsForExistingPeer_IDKept(t *testing.T) {
	stub := &demoBStub{}
	up4 := newDemoBUP4(demoBTunnelPeersP4Info(), stub)

	if err := up4.addOrUpdateGTPTunnelPeer(demoBFAR(1)); err != nil {
		t.Fatalf("addOrUpdateGTPTunnelPeer: %v", err)
	}

	before := len(up4.tunnelPeerIDsPool)
	stub.fail = true

	// another session's FAR towards the same gNB
	second := demoBFAR(1)
	second.fseID, second.farID = 5000, 7

	if err := up4.addOrUpdateGTPTunnelPeer(second); err == nil {
		t.Fatalf("test setup: the MODIFY succeeded although the write failed")
	}

	if got := len(up4.tunnelPeerIDsPool); got != before || len(up4.tunnelPeerIDs) != 1 {
		t.Errorf("after the failed MODIFY: pool %d (want %d), registered peers %d (want 1)",
			got, before, len(up4.tunnelPeerIDs))
	}

	checkDemoBIDs(t, up4)
}
