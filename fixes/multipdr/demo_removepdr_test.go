// SPDX-License-Identifier: Apache-2.0

package pfcpiface

// Test harness: an in-process P4Runtime switch (served over a unix socket, no network),
// a UP4 datapath connected to it and a PFCP connection whose session handlers are driven
// directly with go-pfcp messages.

import (
	"bytes"
	"context"
	"fmt"
	"math/rand"
	"net"
	"os"
	"path/filepath"
	"sort"
	"strings"
	"sync"
	"testing"
	"time"

	//nolint:staticcheck // the P4Runtime stubs are based on the deprecated proto package
	"github.com/golang/protobuf/proto"
	"github.com/omec-project/upf-epc/internal/p4constants"
	"github.com/omec-project/upf-epc/pfcpiface/metrics"
	p4ConfigV1 "github.com/p4lang/p4runtime/go/p4/config/v1"
	p4 "github.com/p4lang/p4runtime/go/p4/v1"
	"github.com/wmnsk/go-pfcp/ie"
	"github.com/wmnsk/go-pfcp/message"
	rpcstatus "google.golang.org/genproto/googleapis/rpc/status"
	"google.golang.org/grpc"
	"google.golang.org/grpc/codes"
	"google.golang.org/grpc/status"
)

// ---------------------------------------------------------------------------------------------
// fake P4Runtime switch

type rpMeterKey struct {
	meterID uint32
	index   int64
}

type rpSwitch struct {
	p4.UnimplementedP4RuntimeServer

	mu     sync.Mutex
	p4info *p4ConfigV1.P4Info
	tables map[uint32]map[string]*p4.TableEntry
	meters map[rpMeterKey]*p4.MeterConfig
	// failWrite, when set, lets a test inject a fault: a non-nil return value fails that update.
	failWrite func(u *p4.Update) *p4.Error

	srv  *grpc.Server
	sock string
}

func rpTrim(b []byte) []byte {
	for len(b) > 1 && b[0] == 0 {
		b = b[1:]
	}

	return b
}

func rpEntryKey(e *p4.TableEntry) string {
	parts := make([]string, 0, len(e.Match)+1)

	for _, m := range e.Match {
		var s string

		switch {
		case m.GetExact() != nil:
			s = fmt.Sprintf("%d=E%x", m.FieldId, rpTrim(m.GetExact().Value))
		case m.GetLpm() != nil:
			s = fmt.Sprintf("%d=L%x/%d", m.FieldId, rpTrim(m.GetLpm().Value), m.GetLpm().PrefixLen)
		case m.GetTernary() != nil:
			s = fmt.Sprintf("%d=T%x&%x", m.FieldId, rpTrim(m.GetTernary().Value), rpTrim(m.GetTernary().Mask))
		case m.GetRange() != nil:
			s = fmt.Sprintf("%d=R%x-%x", m.FieldId, rpTrim(m.GetRange().Low), rpTrim(m.GetRange().High))
		}

		parts = append(parts, s)
	}

	sort.Strings(parts)
	parts = append(parts, fmt.Sprintf("prio=%d", e.Priority))

	return strings.Join(parts, ",")
}

func rpStartSwitch(t *testing.T) *rpSwitch {
	t.Helper()

	raw, err := os.ReadFile(filepath.Join("..", "conf", "p4", "bin", "p4info.txt"))
	if err != nil {
		t.Fatalf("read p4info: %v", err)
	}

	info := &p4ConfigV1.P4Info{}
	if err = proto.UnmarshalText(string(raw), info); err != nil {
		t.Fatalf("parse p4info: %v", err)
	}

	dir, err := os.MkdirTemp("", "c04")
	if err != nil {
		t.Fatal(err)
	}

	sw := &rpSwitch{
		p4info: info,
		tables: map[uint32]map[string]*p4.TableEntry{},
		meters: map[rpMeterKey]*p4.MeterConfig{},
		sock:   filepath.Join(dir, "p4.sock"),
	}

	lis, err := net.Listen("unix", sw.sock)
	if err != nil {
		t.Fatalf("listen: %v", err)
	}

	sw.srv = grpc.NewServer()
	p4.RegisterP4RuntimeServer(sw.srv, sw)

	go func() { _ = sw.srv.Serve(lis) }()

	t.Cleanup(func() {
		// the agents under test keep goroutines that poll the connection: leave the server
		// running until the process exits, only remove the socket directory.
		_ = os.RemoveAll(dir)
	})

	return sw
}

func (s *rpSwitch) applyUpdate(u *p4.Update) *p4.Error {
	if s.failWrite != nil {
		if e := s.failWrite(u); e != nil {
			return e
		}
	}

	switch ent := u.Entity.Entity.(type) {
	case *p4.Entity_TableEntry:
		e := ent.TableEntry

		tbl := s.tables[e.TableId]
		if tbl == nil {
			tbl = map[string]*p4.TableEntry{}
			s.tables[e.TableId] = tbl
		}

		key := rpEntryKey(e)
		_, exists := tbl[key]

		switch u.Type {
		case p4.Update_INSERT:
			if exists {
				return &p4.Error{CanonicalCode: int32(codes.AlreadyExists), Message: "entry exists"}
			}

			tbl[key] = proto.Clone(e).(*p4.TableEntry)
		case p4.Update_MODIFY:
			if !exists {
				return &p4.Error{CanonicalCode: int32(codes.NotFound), Message: "no such entry"}
			}

			tbl[key] = proto.Clone(e).(*p4.TableEntry)
		case p4.Update_DELETE:
			if !exists {
				return &p4.Error{CanonicalCode: int32(codes.NotFound), Message: "no such entry"}
			}

			delete(tbl, key)
		default:
			return &p4.Error{CanonicalCode: int32(codes.InvalidArgument), Message: "bad update type"}
		}
	case *p4.Entity_MeterEntry:
		m := ent.MeterEntry
		if u.Type != p4.Update_MODIFY {
			return &p4.Error{CanonicalCode: int32(codes.InvalidArgument), Message: "meters can only be modified"}
		}

		k := rpMeterKey{m.MeterId, m.GetIndex().GetIndex()}
		if m.Config == nil {
			delete(s.meters, k)
		} else {
			s.meters[k] = proto.Clone(m.Config).(*p4.MeterConfig)
		}
	case *p4.Entity_CounterEntry:
		// counters are not modelled
	default:
		return &p4.Error{CanonicalCode: int32(codes.Unimplemented), Message: "entity not supported"}
	}

	return nil
}

func (s *rpSwitch) Write(_ context.Context, req *p4.WriteRequest) (*p4.WriteResponse, error) {
	s.mu.Lock()
	defer s.mu.Unlock()

	failed := false
	results := make([]*p4.Error, 0, len(req.Updates))

	for _, u := range req.Updates {
		e := s.applyUpdate(u)
		if e == nil {
			e = &p4.Error{CanonicalCode: int32(codes.OK)}
		} else {
			failed = true
		}

		results = append(results, e)
	}

	if !failed {
		return &p4.WriteResponse{}, nil
	}

	st := status.New(codes.Unknown, "write failed")

	for _, e := range results {
		var err error
		if st, err = st.WithDetails(e); err != nil {
			return nil, status.Error(codes.Internal, err.Error())
		}
	}

	return nil, st.Err()
}

func (s *rpSwitch) Read(req *p4.ReadRequest, stream p4.P4Runtime_ReadServer) error {
	s.mu.Lock()
	defer s.mu.Unlock()

	resp := &p4.ReadResponse{}

	for _, ent := range req.Entities {
		te := ent.GetTableEntry()
		if te == nil {
			continue
		}

		keys := make([]string, 0)
		for k := range s.tables[te.TableId] {
			keys = append(keys, k)
		}

		sort.Strings(keys)

		for _, k := range keys {
			resp.Entities = append(resp.Entities, &p4.Entity{
				Entity: &p4.Entity_TableEntry{TableEntry: proto.Clone(s.tables[te.TableId][k]).(*p4.TableEntry)},
			})
		}
	}

	return stream.Send(resp)
}

func (s *rpSwitch) GetForwardingPipelineConfig(context.Context, *p4.GetForwardingPipelineConfigRequest) (*p4.GetForwardingPipelineConfigResponse, error) {
	return &p4.GetForwardingPipelineConfigResponse{
		Config: &p4.ForwardingPipelineConfig{P4Info: s.p4info},
	}, nil
}

func (s *rpSwitch) StreamChannel(stream p4.P4Runtime_StreamChannelServer) error {
	for {
		in, err := stream.Recv()
		if err != nil {
			return nil
		}

		if arb := in.GetArbitration(); arb != nil {
			_ = stream.Send(&p4.StreamMessageResponse{
				Update: &p4.StreamMessageResponse_Arbitration{Arbitration: &p4.MasterArbitrationUpdate{
					DeviceId:   arb.DeviceId,
					ElectionId: arb.ElectionId,
					Status:     &rpcstatus.Status{Code: int32(codes.OK)},
				}},
			})
		}
	}
}

// rpEntry is a decoded table entry.
type rpEntry struct {
	table    string
	action   string
	match    map[string]string // field name -> canonical text
	params   map[string]uint64
	priority int32
}

func (e rpEntry) String() string {
	return fmt.Sprintf("%s{%v prio=%d -> %s%v}", e.table, e.match, e.priority, e.action, e.params)
}

func rpUint(b []byte) uint64 {
	var v uint64
	for _, x := range b {
		v = v<<8 | uint64(x)
	}

	return v
}

func (s *rpSwitch) decode(e *p4.TableEntry) rpEntry {
	out := rpEntry{match: map[string]string{}, params: map[string]uint64{}, priority: e.Priority}

	for _, tbl := range s.p4info.Tables {
		if tbl.Preamble.Id != e.TableId {
			continue
		}

		out.table = tbl.Preamble.Alias

		for _, m := range e.Match {
			name := fmt.Sprint(m.FieldId)

			for _, f := range tbl.MatchFields {
				if f.Id == m.FieldId {
					name = f.Name
				}
			}

			switch {
			case m.GetExact() != nil:
				out.match[name] = fmt.Sprint(rpUint(m.GetExact().Value))
			case m.GetLpm() != nil:
				out.match[name] = fmt.Sprintf("%d/%d", rpUint(m.GetLpm().Value), m.GetLpm().PrefixLen)
			case m.GetTernary() != nil:
				out.match[name] = fmt.Sprintf("%d&%d", rpUint(m.GetTernary().Value), rpUint(m.GetTernary().Mask))
			case m.GetRange() != nil:
				out.match[name] = fmt.Sprintf("%d-%d", rpUint(m.GetRange().Low), rpUint(m.GetRange().High))
			}
		}
	}

	act := e.GetAction().GetAction()
	if act != nil {
		for _, a := range s.p4info.Actions {
			if a.Preamble.Id != act.ActionId {
				continue
			}

			out.action = a.Preamble.Alias

			for _, p := range act.Params {
				for _, ap := range a.Params {
					if ap.Id == p.ParamId {
						out.params[ap.Name] = rpUint(p.Value)
					}
				}
			}
		}
	}

	return out
}

// entries returns the decoded entries of a table, in a stable order.
func (s *rpSwitch) entries(tableID uint32) []rpEntry {
	s.mu.Lock()
	defer s.mu.Unlock()

	keys := make([]string, 0)
	for k := range s.tables[tableID] {
		keys = append(keys, k)
	}

	sort.Strings(keys)

	out := make([]rpEntry, 0, len(keys))
	for _, k := range keys {
		out = append(out, s.decode(s.tables[tableID][k]))
	}

	return out
}

func (s *rpSwitch) meterCells(meterID uint32) []int64 {
	s.mu.Lock()
	defer s.mu.Unlock()

	out := make([]int64, 0)

	for k := range s.meters {
		if k.meterID == meterID {
			out = append(out, k.index)
		}
	}

	sort.Slice(out, func(i, j int) bool { return out[i] < out[j] })

	return out
}

func (s *rpSwitch) dump() string {
	var b bytes.Buffer

	for _, id := range []uint32{
		p4constants.TablePreQosPipeInterfaces,
		p4constants.TablePreQosPipeSessionsUplink, p4constants.TablePreQosPipeSessionsDownlink,
		p4constants.TablePreQosPipeTerminationsUplink, p4constants.TablePreQosPipeTerminationsDownlink,
		p4constants.TablePreQosPipeApplications, p4constants.TablePreQosPipeTunnelPeers,
	} {
		for _, e := range s.entries(id) {
			fmt.Fprintf(&b, "  %v\n", e)
		}
	}

	fmt.Fprintf(&b, "  app meter cells: %v, session meter cells: %v\n",
		s.meterCells(p4constants.MeterPreQosPipeAppMeter), s.meterCells(p4constants.MeterPreQosPipeSessionMeter))

	return b.String()
}

// ---------------------------------------------------------------------------------------------
// agent under test

type rpNoMetrics struct{}

func (rpNoMetrics) SaveMessages(*metrics.Message) {}
func (rpNoMetrics) SaveSessions(*metrics.Session) {}
func (rpNoMetrics) Stop() error                   { return nil }

type rpConn struct{ net.Conn }

func (rpConn) LocalAddr() net.Addr  { return &net.UDPAddr{IP: net.ParseIP("127.0.0.1"), Port: 8805} }
func (rpConn) RemoteAddr() net.Addr { return &net.UDPAddr{IP: net.ParseIP("127.0.0.2"), Port: 8805} }
func (rpConn) Close() error         { return nil }

const (
	rpN3Addr  = "198.18.0.1"
	rpUEPool  = "10.250.0.0/16"
	rpSmfNode = "127.0.0.2"
)

type rpAgent struct {
	t     *testing.T
	up4   *UP4
	upf   *upf
	pConn *PFCPConn
	seq   uint32
}

// rpStartAgent starts a new incarnation of the PFCP agent against the switch.
func rpStartAgent(t *testing.T, sw *rpSwitch, p4conf P4rtcInfo) *rpAgent {
	t.Helper()

	p4conf.AccessIP = rpN3Addr + "/32"
	// SetUpfInfo joins server and port with a colon: this yields the gRPC target unix:///path
	p4conf.P4rtcServer = "unix"
	p4conf.P4rtcPort = "//" + sw.sock

	conf := &Conf{
		EnableP4rt: true,
		P4rtcIface: p4conf,
		CPIface:    CPIfaceInfo{UEIPPool: rpUEPool},
	}

	up4 := &UP4{}
	u := &upf{
		datapath:         up4,
		reportNotifyChan: make(chan uint64, 1024),
		fteidGenerator:   NewFTEIDGenerator(),
		readTimeout:      time.Second,
		nodeID:           "127.0.0.1",
	}

	u.SetUpfInfo(u, conf)

	deadline := time.Now().Add(5 * time.Second)
	for {
		err := up4.tryConnect()
		if err == nil && up4.IsConnected(nil) {
			break
		}

		if time.Now().After(deadline) {
			t.Fatalf("agent could not connect to the fake switch: %v", err)
		}

		time.Sleep(20 * time.Millisecond)
	}

	pc := &PFCPConn{
		ctx:            context.Background(),
		Conn:           rpConn{},
		rng:            rand.New(rand.NewSource(42)), // #nosec G404
		maxRetries:     100,
		store:          NewInMemoryStore(),
		upf:            u,
		InstrumentPFCP: rpNoMetrics{},
		shutdown:       make(chan struct{}),
		done:           make(chan string, 16),
		hbReset:        make(chan struct{}, 16),
	}
	pc.nodeID.remote = rpSmfNode
	pc.nodeID.local = "127.0.0.1"
	pc.nodeID.localIE = ie.NewNodeID("127.0.0.1", "", "")

	return &rpAgent{t: t, up4: up4, upf: u, pConn: pc}
}

// rpUE describes one PDU session as an SMF would request it: one uplink PDR (ID 1) and one
// downlink PDR (ID 2), an uplink FAR (ID 1) and a downlink FAR (ID 2), one QER (ID 1) and,
// optionally, a session-level QER (ID 4).
type rpUE struct {
	cpSEID uint64
	ueIP   string
	ulTEID uint32
	dlTEID uint32
	gnb    string
	qfi    uint8
	// sdf, when not empty, is the SDF filter of both PDRs
	sdf string
	// sessQER adds a session-level QER (ID 4) to both PDRs
	sessQER bool
	// noTunnel creates the downlink FAR without Outer Header Creation (the gNB is not known yet)
	noTunnel bool

	seid uint64 // the SEID chosen by the UPF
}

func (a *rpAgent) nextSeq() uint32 {
	a.seq++
	return a.seq
}

func rpCause(t *testing.T, c *ie.IE) uint8 {
	t.Helper()

	if c == nil {
		t.Fatalf("response without cause")
	}

	v, err := c.Cause()
	if err != nil {
		t.Fatalf("cause: %v", err)
	}

	return v
}

// establish sends a Session Establishment Request in the way pfcpsim builds it.
func (a *rpAgent) establish(ue *rpUE, dlAction uint8) uint8 {
	a.t.Helper()

	ulPDI := ie.NewPDI(
		ie.NewSourceInterface(ie.SrcInterfaceAccess),
		ie.NewFTEID(0x01, ue.ulTEID, net.ParseIP(rpN3Addr), nil, 0),
	)
	dlPDI := ie.NewPDI(
		ie.NewSourceInterface(ie.SrcInterfaceCore),
		ie.NewUEIPAddress(0x2, ue.ueIP, "", 0, 0),
	)

	if ue.sdf != "" {
		ulPDI.Add(ie.NewSDFFilter(ue.sdf, "", "", "", 1))
		dlPDI.Add(ie.NewSDFFilter(ue.sdf, "", "", "", 1))
	}

	ulPDR := ie.NewCreatePDR(ie.NewPDRID(1), ie.NewPrecedence(255), ie.NewOuterHeaderRemoval(0, 0),
		ie.NewFARID(1), ulPDI, ie.NewQERID(1))
	dlPDR := ie.NewCreatePDR(ie.NewPDRID(2), ie.NewPrecedence(255), ie.NewFARID(2), dlPDI, ie.NewQERID(1))

	if ue.sessQER {
		ulPDR.Add(ie.NewQERID(4))
		dlPDR.Add(ie.NewQERID(4))
	}

	ies := []*ie.IE{
		ulPDR, dlPDR,
		ie.NewCreateFAR(ie.NewFARID(1), ie.NewApplyAction(ActionForward),
			ie.NewForwardingParameters(ie.NewDestinationInterface(ie.DstInterfaceCore))),
		a.dlFAR(ue, dlAction, false),
		ie.NewCreateQER(ie.NewQERID(1), ie.NewQFI(ue.qfi), ie.NewGateStatus(ie.GateStatusOpen, ie.GateStatusOpen),
			ie.NewMBR(50000, 60000)),
	}

	if ue.sessQER {
		ies = append(ies, ie.NewCreateQER(ie.NewQERID(4), ie.NewQFI(0),
			ie.NewGateStatus(ie.GateStatusOpen, ie.GateStatusOpen), ie.NewMBR(500000, 600000)))
	}

	ies = append(ies, ie.NewNodeID(rpSmfNode, "", ""), ie.NewFSEID(ue.cpSEID, net.ParseIP(rpSmfNode), nil))

	req := message.NewSessionEstablishmentRequest(0, 0, 0, a.nextSeq(), 0, ies...)

	res, _ := a.pConn.handleSessionEstablishmentRequest(req)

	r, ok := res.(*message.SessionEstablishmentResponse)
	if !ok {
		a.t.Fatalf("unexpected response %T", res)
	}

	cause := rpCause(a.t, r.Cause)
	if cause == ie.CauseRequestAccepted {
		f, err := r.UPFSEID.FSEID()
		if err != nil {
			a.t.Fatalf("UP F-SEID: %v", err)
		}

		ue.seid = f.SEID
	}

	return cause
}

func (a *rpAgent) dlFAR(ue *rpUE, action uint8, upd bool) *ie.IE {
	params := []*ie.IE{ie.NewDestinationInterface(ie.DstInterfaceAccess)}
	if !ue.noTunnel {
		params = append(params, ie.NewOuterHeaderCreation(0x100, ue.dlTEID, ue.gnb, "", 0, 0, 0))
	}

	if upd {
		return ie.NewUpdateFAR(ie.NewFARID(2), ie.NewApplyAction(action), ie.NewUpdateForwardingParameters(params...))
	}

	if action&ActionForward == 0 {
		// pfcpiface reads the Forwarding Parameters of a new FAR only when it forwards
		return ie.NewCreateFAR(ie.NewFARID(2), ie.NewApplyAction(action))
	}

	return ie.NewCreateFAR(ie.NewFARID(2), ie.NewApplyAction(action), ie.NewForwardingParameters(params...))
}

// modify sends a Session Modification Request with the given IEs.
func (a *rpAgent) modify(ue *rpUE, ies ...*ie.IE) uint8 {
	a.t.Helper()

	req := message.NewSessionModificationRequest(0, 0, ue.seid, a.nextSeq(), 0, ies...)

	res, _ := a.pConn.handleSessionModificationRequest(req)

	r, ok := res.(*message.SessionModificationResponse)
	if !ok {
		a.t.Fatalf("unexpected response %T", res)
	}

	return rpCause(a.t, r.Cause)
}

// setDownlinkAction updates the downlink FAR of the session (what an SMF does on idle / service request).
func (a *rpAgent) setDownlinkAction(ue *rpUE, action uint8) uint8 {
	a.t.Helper()
	return a.modify(ue, a.dlFAR(ue, action, true))
}

func (a *rpAgent) remove(ue *rpUE) uint8 {
	a.t.Helper()

	req := message.NewSessionDeletionRequest(0, 0, ue.seid, a.nextSeq(), 0)

	res, _ := a.pConn.handleSessionDeletionRequest(req)

	r, ok := res.(*message.SessionDeletionResponse)
	if !ok {
		a.t.Fatalf("unexpected response %T", res)
	}

	return rpCause(a.t, r.Cause)
}

func rpIP(s string) uint64 { return uint64(ip2int(net.ParseIP(s).To4())) }

// ---------------------------------------------------------------------------------------------
// demonstration: Session Modification Request that removes ONE of two uplink PDRs which share
// the session's F-TEID
//
// sessions_uplink is keyed by (N3 address, TEID): both uplink PDRs are served by ONE entry.
// (*UP4).sendDelete / modifyUP4ForwardingConfiguration(DELETE) are handed only the removed rules
// and delete [sessions entry, applications entry if unused, terminations entry] of each removed
// PDR - they cannot know that another PDR of the session still needs the sessions entry.

// rpFlow is one service data flow of a session: an SDF filter with a precedence and the
// directions for which the SMF creates a PDR.
type rpFlow struct {
	sdf        string
	precedence uint32
	uplink     bool
	downlink   bool
	// ulTEID, when not 0, puts the uplink PDR of this flow behind a TEID of its own
	ulTEID uint32
}

// rpPools is a snapshot of everything UP4 hands out per session.
type rpPools struct {
	counterIDs, appMeterCells, sessMeterCells int
	tunnelPeerIDs, tunnelPeers                int
	applicationIDs, applications              int
	meters, ueToFSEID, fseidToUE              int
}

func (a *rpAgent) pools() rpPools {
	up4 := a.up4

	up4.stateMu.Lock()
	defer up4.stateMu.Unlock()
	up4.tunnelPeerMu.Lock()
	defer up4.tunnelPeerMu.Unlock()
	up4.applicationMu.Lock()
	defer up4.applicationMu.Unlock()

	return rpPools{
		counterIDs:     up4.counters[preQosCounterID].counterIDsPool.Cardinality(),
		appMeterCells:  up4.appMeterCellIDsPool.Cardinality(),
		sessMeterCells: up4.sessMeterCellIDsPool.Cardinality(),
		tunnelPeerIDs:  len(up4.tunnelPeerIDsPool),
		tunnelPeers:    len(up4.tunnelPeerIDs),
		applicationIDs: len(up4.applicationIDsPool),
		applications:   len(up4.applicationIDs),
		meters:         len(up4.meters),
		ueToFSEID:      len(up4.ueAddrToFSEID),
		fseidToUE:      len(up4.fseidToUEAddr),
	}
}

// establishFlows sends a Session Establishment Request the way pfcpsim / SD-Core build it for a
// session with several application filters: per flow one uplink PDR (behind the session's F-TEID)
// and/or one downlink PDR (UE address), in the order UL, DL, UL, DL, ...; PDR IDs 1, 2, 3, ...;
// every PDR has a FAR of its own (FAR ID = PDR ID + 100); one application QER per flow (ID 10+i)
// and one session QER (ID 4) referenced by every PDR.
func (a *rpAgent) establishFlows(ue *rpUE, flows []rpFlow) uint8 {
	a.t.Helper()

	var (
		pdrs, fars, qers []*ie.IE
		pdrID            uint16
	)

	for i, f := range flows {
		appQER := uint32(10 + i)
		qers = append(qers, ie.NewCreateQER(ie.NewQERID(appQER), ie.NewQFI(ue.qfi),
			ie.NewGateStatus(ie.GateStatusOpen, ie.GateStatusOpen), ie.NewMBR(50000, 60000)))

		if f.uplink {
			teid := ue.ulTEID
			if f.ulTEID != 0 {
				teid = f.ulTEID
			}

			pdi := ie.NewPDI(
				ie.NewSourceInterface(ie.SrcInterfaceAccess),
				ie.NewFTEID(0x01, teid, net.ParseIP(rpN3Addr), nil, 0),
			)
			if f.sdf != "" {
				pdi.Add(ie.NewSDFFilter(f.sdf, "", "", "", 1))
			}

			pdrID++
			far := uint32(pdrID) + 100

			fars = append(fars, ie.NewCreateFAR(ie.NewFARID(far), ie.NewApplyAction(ActionForward),
				ie.NewForwardingParameters(ie.NewDestinationInterface(ie.DstInterfaceCore))))
			pdrs = append(pdrs, ie.NewCreatePDR(ie.NewPDRID(pdrID), ie.NewPrecedence(f.precedence),
				ie.NewOuterHeaderRemoval(0, 0), ie.NewFARID(far), pdi, ie.NewQERID(appQER), ie.NewQERID(4)))
		}

		if f.downlink {
			pdi := ie.NewPDI(
				ie.NewSourceInterface(ie.SrcInterfaceCore),
				ie.NewUEIPAddress(0x2, ue.ueIP, "", 0, 0),
			)
			if f.sdf != "" {
				pdi.Add(ie.NewSDFFilter(f.sdf, "", "", "", 1))
			}

			pdrID++
			far := uint32(pdrID) + 100

			fars = append(fars, ie.NewCreateFAR(ie.NewFARID(far), ie.NewApplyAction(ActionForward),
				ie.NewForwardingParameters(ie.NewDestinationInterface(ie.DstInterfaceAccess),
					ie.NewOuterHeaderCreation(0x100, ue.dlTEID, ue.gnb, "", 0, 0, 0))))
			pdrs = append(pdrs, ie.NewCreatePDR(ie.NewPDRID(pdrID), ie.NewPrecedence(f.precedence),
				ie.NewFARID(far), pdi, ie.NewQERID(appQER), ie.NewQERID(4)))
		}
	}

	qers = append(qers, ie.NewCreateQER(ie.NewQERID(4), ie.NewQFI(0),
		ie.NewGateStatus(ie.GateStatusOpen, ie.GateStatusOpen), ie.NewMBR(500000, 600000)))

	ies := append(append(append([]*ie.IE{}, pdrs...), fars...), qers...)
	ies = append(ies, ie.NewNodeID(rpSmfNode, "", ""), ie.NewFSEID(ue.cpSEID, net.ParseIP(rpSmfNode), nil))

	res, _ := a.pConn.handleSessionEstablishmentRequest(
		message.NewSessionEstablishmentRequest(0, 0, 0, a.nextSeq(), 0, ies...))

	r, ok := res.(*message.SessionEstablishmentResponse)
	if !ok {
		a.t.Fatalf("unexpected response %T", res)
	}

	cause := rpCause(a.t, r.Cause)
	if cause == ie.CauseRequestAccepted {
		f, err := r.UPFSEID.FSEID()
		if err != nil {
			a.t.Fatalf("UP F-SEID: %v", err)
		}

		ue.seid = f.SEID
	}

	return cause
}

var rpSessionTables = []uint32{
	p4constants.TablePreQosPipeSessionsUplink, p4constants.TablePreQosPipeSessionsDownlink,
	p4constants.TablePreQosPipeTerminationsUplink, p4constants.TablePreQosPipeTerminationsDownlink,
	p4constants.TablePreQosPipeApplications, p4constants.TablePreQosPipeTunnelPeers,
}

func rpTableName(id uint32) string {
	return strings.TrimPrefix(p4constants.GetTableIDToNameMap()[id], "PreQosPipe.")
}

// rpWriteLog records the result of every table update the switch sees while it is switched on.
type rpWriteLog struct {
	mu    sync.Mutex
	on    bool
	lines []string
}

// rpRecordWrites hooks into the switch's Write handler as a pure observer (it never fails an
// update): it derives the outcome of the update from the table state and lets the switch decide.
func rpRecordWrites(sw *rpSwitch) *rpWriteLog {
	l := &rpWriteLog{}

	sw.mu.Lock()
	defer sw.mu.Unlock()

	// called with sw.mu held, before the update is applied
	sw.failWrite = func(u *p4.Update) *p4.Error {
		l.mu.Lock()
		defer l.mu.Unlock()

		te := u.GetEntity().GetTableEntry()
		if te == nil || !l.on {
			return nil
		}

		_, exists := sw.tables[te.TableId][rpEntryKey(te)]
		d := sw.decode(te)

		outcome := "OK"

		switch {
		case u.Type == p4.Update_INSERT && exists:
			outcome = "ALREADY_EXISTS"
		case u.Type != p4.Update_INSERT && !exists:
			outcome = "NOT_FOUND"
		}

		l.lines = append(l.lines, fmt.Sprintf("%-6v %-22s %v -> %s", u.Type, d.table, d.match, outcome))

		return nil
	}

	return l
}

func (l *rpWriteLog) start() {
	l.mu.Lock()
	defer l.mu.Unlock()

	l.on, l.lines = true, nil
}

func (l *rpWriteLog) stop() string {
	l.mu.Lock()
	defer l.mu.Unlock()

	l.on = false

	return "        " + strings.Join(l.lines, "\n        ")
}

type rpWant struct {
	sessUL, sessDL, termUL, termDL, apps, peers int
}

func (w rpWant) perTable() map[uint32]int {
	return map[uint32]int{
		p4constants.TablePreQosPipeSessionsUplink:       w.sessUL,
		p4constants.TablePreQosPipeSessionsDownlink:     w.sessDL,
		p4constants.TablePreQosPipeTerminationsUplink:   w.termUL,
		p4constants.TablePreQosPipeTerminationsDownlink: w.termDL,
		p4constants.TablePreQosPipeApplications:         w.apps,
		p4constants.TablePreQosPipeTunnelPeers:          w.peers,
	}
}

// rpRemoval describes the Session Modification Request under test.
type rpRemoval struct {
	pdrID uint16 // Remove PDR; its FAR (pdrID + 100) is removed with it
	qerID uint32 // Remove QER, when not 0 (the application QER of a flow that goes away altogether)
	// what must be in the switch afterwards
	remainingTEID  uint32 // TEID of the sessions_uplink entry that the remaining uplink PDR needs
	remainingULSdf string // application filter of the remaining uplink PDR: "app_l4_port" of its applications entry
	after          rpWant
}

// rpRunRemovePDR: establish the session, check every entry; remove one PDR with a Session
// Modification Request, check (a) and (b); delete the session, check (c).
func rpRunRemovePDR(t *testing.T, flows []rpFlow, before rpWant, rm rpRemoval) {
	sw := rpStartSwitch(t)
	a := rpStartAgent(t, sw, P4rtcInfo{SliceID: 0, DefaultTC: 3})
	wl := rpRecordWrites(sw)

	initial := a.pools()
	t.Logf("initial pools: %+v", initial)

	for _, tbl := range rpSessionTables {
		if es := sw.entries(tbl); len(es) != 0 {
			t.Fatalf("switch not empty at start: %v", es)
		}
	}

	ue := &rpUE{cpSEID: 1, ueIP: "10.250.0.1", ulTEID: 101, dlTEID: 201, gnb: "198.18.1.1", qfi: 9}

	// --- establishment: must be accepted, every INSERT must have landed -------------------------
	wl.start()

	if c := a.establishFlows(ue, flows); c != ie.CauseRequestAccepted {
		t.Fatalf("establishment rejected, cause %d\n%s", c, sw.dump())
	}

	t.Logf("table updates seen by the switch during establishment:\n%s", wl.stop())
	t.Logf("UP4 tables after establishment:\n%s", sw.dump())

	sess, ok := a.pConn.store.GetSession(ue.seid)
	if !ok {
		t.Fatalf("accepted session %d is not in the store", ue.seid)
	}

	nPDR := len(sess.pdrs)

	for tbl, n := range before.perTable() {
		if es := sw.entries(tbl); len(es) != n {
			t.Fatalf("after establishment: want %d entries in table %s, have %d: %v", n, rpTableName(tbl), len(es), es)
		}
	}

	if got := initial.counterIDs - a.pools().counterIDs; got != nPDR {
		t.Fatalf("after establishment: want %d counter cells in use, have %d", nPDR, got)
	}

	// --- Session Modification Request: Remove PDR + Remove FAR (+ Remove QER) --------------------
	ies := []*ie.IE{ie.NewRemovePDR(ie.NewPDRID(rm.pdrID)), ie.NewRemoveFAR(ie.NewFARID(uint32(rm.pdrID) + 100))}
	if rm.qerID != 0 {
		ies = append(ies, ie.NewRemoveQER(ie.NewQERID(rm.qerID)))
	}

	wl.start()

	cause := a.modify(ue, ies...)

	t.Logf("table updates seen by the switch during the Session Modification Request (Remove PDR %d):\n%s", rm.pdrID, wl.stop())
	t.Logf("UP4 tables after the Session Modification Request:\n%s", sw.dump())

	// (a)
	if cause != ie.CauseRequestAccepted {
		t.Fatalf("(a) Session Modification Request (Remove PDR %d, Remove FAR %d) answered with cause %d, want %d (Request accepted)",
			rm.pdrID, uint32(rm.pdrID)+100, cause, ie.CauseRequestAccepted)
	}

	sess, _ = a.pConn.store.GetSession(ue.seid)
	if len(sess.pdrs) != nPDR-1 {
		t.Fatalf("(a) the session holds %d PDRs after the removal, want %d", len(sess.pdrs), nPDR-1)
	}

	// (b) the remaining uplink PDR is still served: its sessions_uplink entry ...
	sessUL := sw.entries(p4constants.TablePreQosPipeSessionsUplink)
	if len(sessUL) != 1 {
		t.Errorf("(b) an uplink PDR behind F-TEID %s/%d is still part of the session, want exactly 1 sessions_uplink entry, have %d: %v",
			rpN3Addr, rm.remainingTEID, len(sessUL), sessUL)
	} else if e := sessUL[0]; e.match["teid"] != fmt.Sprint(rm.remainingTEID) || e.match["n3_address"] != fmt.Sprint(rpIP(rpN3Addr)) {
		t.Errorf("(b) the sessions_uplink entry that is left is not the one of the remaining PDR (TEID %d): %v", rm.remainingTEID, e)
	}

	// ... and its terminations_uplink entry, under the application ID of its filter
	var appID string

	for _, e := range sw.entries(p4constants.TablePreQosPipeApplications) {
		if e.match["app_l4_port"] == rm.remainingULSdf {
			appID = fmt.Sprint(e.params["app_id"])
		}
	}

	if appID == "" {
		t.Errorf("(b) no applications entry for the filter of the remaining uplink PDR (ports %s)", rm.remainingULSdf)
	}

	found := false

	for _, e := range sw.entries(p4constants.TablePreQosPipeTerminationsUplink) {
		if e.match["ue_address"] == fmt.Sprint(rpIP(ue.ueIP)) && e.match["app_id"] == appID {
			found = true
		}
	}

	if !found {
		t.Errorf("(b) no terminations_uplink entry for the remaining uplink PDR (UE %s, app ID %s): %v",
			ue.ueIP, appID, sw.entries(p4constants.TablePreQosPipeTerminationsUplink))
	}

	// ... and nothing else of the session was touched
	for tbl, n := range rm.after.perTable() {
		if tbl == p4constants.TablePreQosPipeSessionsUplink {
			continue // reported above
		}

		if es := sw.entries(tbl); len(es) != n {
			t.Errorf("(b) after the removal: want %d entries in table %s, have %d: %v", n, rpTableName(tbl), len(es), es)
		}
	}

	if got := initial.counterIDs - a.pools().counterIDs; got != nPDR-1 {
		t.Errorf("(b) after the removal: want %d counter cells in use, have %d", nPDR-1, got)
	}

	t.Logf("pools after the removal: %+v", a.pools())

	// --- Session Deletion Request --------------------------------------------------------------
	wl.start()

	cause = a.remove(ue)

	t.Logf("table updates seen by the switch during the Session Deletion Request:\n%s", wl.stop())

	// (c)
	if cause != ie.CauseRequestAccepted {
		t.Errorf("(c) Session Deletion Request answered with cause %d, want %d (Request accepted)", cause, ie.CauseRequestAccepted)
	}

	for _, tbl := range rpSessionTables {
		if left := sw.entries(tbl); len(left) != 0 {
			t.Errorf("(c) after the deletion table %s still holds %v", rpTableName(tbl), left)
		}
	}

	if cells := sw.meterCells(p4constants.MeterPreQosPipeAppMeter); len(cells) != 0 {
		t.Errorf("(c) after the deletion app meter cells are still configured: %v", cells)
	}

	if cells := sw.meterCells(p4constants.MeterPreQosPipeSessionMeter); len(cells) != 0 {
		t.Errorf("(c) after the deletion session meter cells are still configured: %v", cells)
	}

	if n := len(a.pConn.store.GetAllSessions()); n != 0 {
		t.Errorf("(c) after the deletion the store holds %d session(s)", n)
	}

	if after := a.pools(); after != initial {
		t.Errorf("(c) UP4 pools after the deletion differ from the initial ones:\n        initial %+v\n        now     %+v", initial, after)
	}
}

const (
	rpSdfDNS = "permit out udp from 8.8.8.8/32 53 to assigned"
	rpSdfWeb = "permit out tcp from 192.0.2.0/24 80-443 to assigned"
)

// PDR 1: uplink DNS, PDR 2: downlink DNS, PDR 3: uplink web - PDR 1 and PDR 3 behind F-TEID 101.
var rpTwoULOneDL = []rpFlow{
	{sdf: rpSdfDNS, precedence: 100, uplink: true, downlink: true},
	{sdf: rpSdfWeb, precedence: 200, uplink: true},
}

// The second uplink PDR (PDR 3, its FAR 103 and its application QER 11) goes away; PDR 1 stays.
func TestRemovePDRSecondOfTwoUplinkPDRs(t *testing.T) {
	rpRunRemovePDR(t, rpTwoULOneDL, rpWant{sessUL: 1, sessDL: 1, termUL: 2, termDL: 1, apps: 2, peers: 1},
		rpRemoval{pdrID: 3, qerID: 11, remainingTEID: 101, remainingULSdf: "53-53",
			after: rpWant{sessUL: 1, sessDL: 1, termUL: 1, termDL: 1, apps: 1, peers: 1}})
}

// The first uplink PDR (PDR 1 and its FAR 101) goes away; PDR 3 stays. QER 10 is still used by PDR 2.
func TestRemovePDRFirstOfTwoUplinkPDRs(t *testing.T) {
	rpRunRemovePDR(t, rpTwoULOneDL, rpWant{sessUL: 1, sessDL: 1, termUL: 2, termDL: 1, apps: 2, peers: 1},
		rpRemoval{pdrID: 1, remainingTEID: 101, remainingULSdf: "80-443",
			after: rpWant{sessUL: 1, sessDL: 1, termUL: 1, termDL: 1, apps: 2, peers: 1}})
}

// Control: the same session and the same request, but the two uplink PDRs sit behind different
// TEIDs (101 and 102), i.e. each has a sessions_uplink entry of its own.
func TestRemovePDRControlUplinkPDRsWithOwnTEIDs(t *testing.T) {
	flows := []rpFlow{
		{sdf: rpSdfDNS, precedence: 100, uplink: true, downlink: true},
		{sdf: rpSdfWeb, precedence: 200, uplink: true, ulTEID: 102},
	}

	rpRunRemovePDR(t, flows, rpWant{sessUL: 2, sessDL: 1, termUL: 2, termDL: 1, apps: 2, peers: 1},
		rpRemoval{pdrID: 3, qerID: 11, remainingTEID: 101, remainingULSdf: "53-53",
			after: rpWant{sessUL: 1, sessDL: 1, termUL: 1, termDL: 1, apps: 1, peers: 1}})
}
