// SPDX-License-Identifier: Apache-2.0

package pfcpiface

// Test harness: an in-process P4Runtime switch (served over a unix socket, no network),
// a UP4 datapath connected to it and a PFCP connection whose session handlers are driven
// directly with go-pfcp messages.

import (
	"bytes"
	"context"
	"fmt"
	"math/rand"
	"net"
	"os"
	"path/filepath"
	"sort"
	"strings"
	"sync"
	"testing"
	"time"

	//nolint:staticcheck // the P4Runtime stubs are based on the deprecated proto package
	"github.com/golang/protobuf/proto"
	"github.com/omec-project/upf-epc/internal/p4constants"
	"github.com/omec-project/upf-epc/pfcpiface/metrics"
	p4ConfigV1 "github.com/p4lang/p4runtime/go/p4/config/v1"
	p4 "github.com/p4lang/p4runtime/go/p4/v1"
	"github.com/wmnsk/go-pfcp/ie"
	"github.com/wmnsk/go-pfcp/message"
	rpcstatus "google.golang.org/genproto/googleapis/rpc/status"
	"google.golang.org/grpc"
	"google.golang.org/grpc/codes"
	"google.golang.org/grpc/status"
)

// ---------------------------------------------------------------------------------------------
// fake P4Runtime switch

type mpMeterKey struct {
	meterID uint32
	index   int64
}

type mpSwitch struct {
	p4.UnimplementedP4RuntimeServer

	mu     sync.Mutex
	p4info *p4ConfigV1.P4Info
	tables map[uint32]map[string]*p4.TableEntry
	meters map[mpMeterKey]*p4.MeterConfig
	// failWrite, when set, lets a test inject a fault: a non-nil return value fails that update.
	failWrite func(u *p4.Update) *p4.Error

	srv  *grpc.Server
	sock string
}

func mpTrim(b []byte) []byte {
	for len(b) > 1 && b[0] == 0 {
		b = b[1:]
	}

	return b
}

func mpEntryKey(e *p4.TableEntry) string {
	parts := make([]string, 0, len(e.Match)+1)

	for _, m := range e.Match {
		var s string

		switch {
		case m.GetExact() != nil:
			s = fmt.Sprintf("%d=E%x", m.FieldId, mpTrim(m.GetExact().Value))
		case m.GetLpm() != nil:
			s = fmt.Sprintf("%d=L%x/%d", m.FieldId, mpTrim(m.GetLpm().Value), m.GetLpm().PrefixLen)
		case m.GetTernary() != nil:
			s = fmt.Sprintf("%d=T%x&%x", m.FieldId, mpTrim(m.GetTernary().Value), mpTrim(m.GetTernary().Mask))
		case m.GetRange() != nil:
			s = fmt.Sprintf("%d=R%x-%x", m.FieldId, mpTrim(m.GetRange().Low), mpTrim(m.GetRange().High))
		}

		parts = append(parts, s)
	}

	sort.Strings(parts)
	parts = append(parts, fmt.Sprintf("prio=%d", e.Priority))

	return strings.Join(parts, ",")
}

func mpStartSwitch(t *testing.T) *mpSwitch {
	t.Helper()

	raw, err := os.ReadFile(filepath.Join("..", "conf", "p4", "bin", "p4info.txt"))
	if err != nil {
		t.Fatalf("read p4info: %v", err)
	}

	info := &p4ConfigV1.P4Info{}
	if err = proto.UnmarshalText(string(raw), info); err != nil {
		t.Fatalf("parse p4info: %v", err)
	}

	dir, err := os.MkdirTemp("", "c04")
	if err != nil {
		t.Fatal(err)
	}

	sw := &mpSwitch{
		p4info: info,
		tables: map[uint32]map[string]*p4.TableEntry{},
		meters: map[mpMeterKey]*p4.MeterConfig{},
		sock:   filepath.Join(dir, "p4.sock"),
	}

	lis, err := net.Listen("unix", sw.sock)
	if err != nil {
		t.Fatalf("listen: %v", err)
	}

	sw.srv = grpc.NewServer()
	p4.RegisterP4RuntimeServer(sw.srv, sw)

	go func() { _ = sw.srv.Serve(lis) }()

	t.Cleanup(func() {
		// the agents under test keep goroutines that poll the connection: leave the server
		// running until the process exits, only remove the socket directory.
		_ = os.RemoveAll(dir)
	})

	return sw
}

func (s *mpSwitch) applyUpdate(u *p4.Update) *p4.Error {
	if s.failWrite != nil {
		if e := s.failWrite(u); e != nil {
			return e
		}
	}

	switch ent := u.Entity.Entity.(type) {
	case *p4.Entity_TableEntry:
		e := ent.TableEntry

		tbl := s.tables[e.TableId]
		if tbl == nil {
			tbl = map[string]*p4.TableEntry{}
			s.tables[e.TableId] = tbl
		}

		key := mpEntryKey(e)
		_, exists := tbl[key]

		switch u.Type {
		case p4.Update_INSERT:
			if exists {
				return &p4.Error{CanonicalCode: int32(codes.AlreadyExists), Message: "entry exists"}
			}

			tbl[key] = proto.Clone(e).(*p4.TableEntry)
		case p4.Update_MODIFY:
			if !exists {
				return &p4.Error{CanonicalCode: int32(codes.NotFound), Message: "no such entry"}
			}

			tbl[key] = proto.Clone(e).(*p4.TableEntry)
		case p4.Update_DELETE:
			if !exists {
				return &p4.Error{CanonicalCode: int32(codes.NotFound), Message: "no such entry"}
			}

			delete(tbl, key)
		default:
			return &p4.Error{CanonicalCode: int32(codes.InvalidArgument), Message: "bad update type"}
		}
	case *p4.Entity_MeterEntry:
		m := ent.MeterEntry
		if u.Type != p4.Update_MODIFY {
			return &p4.Error{CanonicalCode: int32(codes.InvalidArgument), Message: "meters can only be modified"}
		}

		k := mpMeterKey{m.MeterId, m.GetIndex().GetIndex()}
		if m.Config == nil {
			delete(s.meters, k)
		} else {
			s.meters[k] = proto.Clone(m.Config).(*p4.MeterConfig)
		}
	case *p4.Entity_CounterEntry:
		// counters are not modelled
	default:
		return &p4.Error{CanonicalCode: int32(codes.Unimplemented), Message: "entity not supported"}
	}

	return nil
}

func (s *mpSwitch) Write(_ context.Context, req *p4.WriteRequest) (*p4.WriteResponse, error) {
	s.mu.Lock()
	defer s.mu.Unlock()

	failed := false
	results := make([]*p4.Error, 0, len(req.Updates))

	for _, u := range req.Updates {
		e := s.applyUpdate(u)
		if e == nil {
			e = &p4.Error{CanonicalCode: int32(codes.OK)}
		} else {
			failed = true
		}

		results = append(results, e)
	}

	if !failed {
		return &p4.WriteResponse{}, nil
	}

	st := status.New(codes.Unknown, "write failed")

	for _, e := range results {
		var err error
		if st, err = st.WithDetails(e); err != nil {
			return nil, status.Error(codes.Internal, err.Error())
		}
	}

	return nil, st.Err()
}

func (s *mpSwitch) Read(req *p4.ReadRequest, stream p4.P4Runtime_ReadServer) error {
	s.mu.Lock()
	defer s.mu.Unlock()

	resp := &p4.ReadResponse{}

	for _, ent := range req.Entities {
		te := ent.GetTableEntry()
		if te == nil {
			continue
		}

		keys := make([]string, 0)
		for k := range s.tables[te.TableId] {
			keys = append(keys, k)
		}

		sort.Strings(keys)

		for _, k := range keys {
			resp.Entities = append(resp.Entities, &p4.Entity{
				Entity: &p4.Entity_TableEntry{TableEntry: proto.Clone(s.tables[te.TableId][k]).(*p4.TableEntry)},
			})
		}
	}

	return stream.Send(resp)
}

func (s *mpSwitch) GetForwardingPipelineConfig(context.Context, *p4.GetForwardingPipelineConfigRequest) (*p4.GetForwardingPipelineConfigResponse, error) {
	return &p4.GetForwardingPipelineConfigResponse{
		Config: &p4.ForwardingPipelineConfig{P4Info: s.p4info},
	}, nil
}

func (s *mpSwitch) StreamChannel(stream p4.P4Runtime_StreamChannelServer) error {
	for {
		in, err := stream.Recv()
		if err != nil {
			return nil
		}

		if arb := in.GetArbitration(); arb != nil {
			_ = stream.Send(&p4.StreamMessageResponse{
				Update: &p4.StreamMessageResponse_Arbitration{Arbitration: &p4.MasterArbitrationUpdate{
					DeviceId:   arb.DeviceId,
					ElectionId: arb.ElectionId,
					Status:     &rpcstatus.Status{Code: int32(codes.OK)},
				}},
			})
		}
	}
}

// mpEntry is a decoded table entry.
type mpEntry struct {
	table    string
	action   string
	match    map[string]string // field name -> canonical text
	params   map[string]uint64
	priority int32
}

func (e mpEntry) String() string {
	return fmt.Sprintf("%s{%v prio=%d -> %s%v}", e.table, e.match, e.priority, e.action, e.params)
}

func mpUint(b []byte) uint64 {
	var v uint64
	for _, x := range b {
		v = v<<8 | uint64(x)
	}

	return v
}

func (s *mpSwitch) decode(e *p4.TableEntry) mpEntry {
	out := mpEntry{match: map[string]string{}, params: map[string]uint64{}, priority: e.Priority}

	for _, tbl := range s.p4info.Tables {
		if tbl.Preamble.Id != e.TableId {
			continue
		}

		out.table = tbl.Preamble.Alias

		for _, m := range e.Match {
			name := fmt.Sprint(m.FieldId)

			for _, f := range tbl.MatchFields {
				if f.Id == m.FieldId {
					name = f.Name
				}
			}

			switch {
			case m.GetExact() != nil:
				out.match[name] = fmt.Sprint(mpUint(m.GetExact().Value))
			case m.GetLpm() != nil:
				out.match[name] = fmt.Sprintf("%d/%d", mpUint(m.GetLpm().Value), m.GetLpm().PrefixLen)
			case m.GetTernary() != nil:
				out.match[name] = fmt.Sprintf("%d&%d", mpUint(m.GetTernary().Value), mpUint(m.GetTernary().Mask))
			case m.GetRange() != nil:
				out.match[name] = fmt.Sprintf("%d-%d", mpUint(m.GetRange().Low), mpUint(m.GetRange().High))
			}
		}
	}

	act := e.GetAction().GetAction()
	if act != nil {
		for _, a := range s.p4info.Actions {
			if a.Preamble.Id != act.ActionId {
				continue
			}

			out.action = a.Preamble.Alias

			for _, p := range act.Params {
				for _, ap := range a.Params {
					if ap.Id == p.ParamId {
						out.params[ap.Name] = mpUint(p.Value)
					}
				}
			}
		}
	}

	return out
}

// entries returns the decoded entries of a table, in a stable order.
func (s *mpSwitch) entries(tableID uint32) []mpEntry {
	s.mu.Lock()
	defer s.mu.Unlock()

	keys := make([]string, 0)
	for k := range s.tables[tableID] {
		keys = append(keys, k)
	}

	sort.Strings(keys)

	out := make([]mpEntry, 0, len(keys))
	for _, k := range keys {
		out = append(out, s.decode(s.tables[tableID][k]))
	}

	return out
}

func (s *mpSwitch) meterCells(meterID uint32) []int64 {
	s.mu.Lock()
	defer s.mu.Unlock()

	out := make([]int64, 0)

	for k := range s.meters {
		if k.meterID == meterID {
			out = append(out, k.index)
		}
	}

	sort.Slice(out, func(i, j int) bool { return out[i] < out[j] })

	return out
}

func (s *mpSwitch) dump() string {
	var b bytes.Buffer

	for _, id := range []uint32{
		p4constants.TablePreQosPipeInterfaces,
		p4constants.TablePreQosPipeSessionsUplink, p4constants.TablePreQosPipeSessionsDownlink,
		p4constants.TablePreQosPipeTerminationsUplink, p4constants.TablePreQosPipeTerminationsDownlink,
		p4constants.TablePreQosPipeApplications, p4constants.TablePreQosPipeTunnelPeers,
	} {
		for _, e := range s.entries(id) {
			fmt.Fprintf(&b, "  %v\n", e)
		}
	}

	fmt.Fprintf(&b, "  app meter cells: %v, session meter cells: %v\n",
		s.meterCells(p4constants.MeterPreQosPipeAppMeter), s.meterCells(p4constants.MeterPreQosPipeSessionMeter))

	return b.String()
}

// ---------------------------------------------------------------------------------------------
// agent under test

type mpNoMetrics struct{}

func (mpNoMetrics) SaveMessages(*metrics.Message) {}
func (mpNoMetrics) SaveSessions(*metrics.Session) {}
func (mpNoMetrics) Stop() error                   { return nil }

type mpConn struct{ net.Conn }

func (mpConn) LocalAddr() net.Addr  { return &net.UDPAddr{IP: net.ParseIP("127.0.0.1"), Port: 8805} }
func (mpConn) RemoteAddr() net.Addr { return &net.UDPAddr{IP: net.ParseIP("127.0.0.2"), Port: 8805} }
func (mpConn) Close() error         { return nil }

const (
	mpN3Addr  = "198.18.0.1"
	mpUEPool  = "10.250.0.0/16"
	mpSmfNode = "127.0.0.2"
)

type mpAgent struct {
	t     *testing.T
	up4   *UP4
	upf   *upf
	pConn *PFCPConn
	seq   uint32
}

// mpStartAgent starts a new incarnation of the PFCP agent against the switch.
func mpStartAgent(t *testing.T, sw *mpSwitch, p4conf P4rtcInfo) *mpAgent {
	t.Helper()

	p4conf.AccessIP = mpN3Addr + "/32"
	// SetUpfInfo joins server and port with a colon: this yields the gRPC target unix:///path
	p4conf.P4rtcServer = "unix"
	p4conf.P4rtcPort = "//" + sw.sock

	conf := &Conf{
		EnableP4rt: true,
		P4rtcIface: p4conf,
		CPIface:    CPIfaceInfo{UEIPPool: mpUEPool},
	}

	up4 := &UP4{}
	u := &upf{
		datapath:         up4,
		reportNotifyChan: make(chan uint64, 1024),
		fteidGenerator:   NewFTEIDGenerator(),
		readTimeout:      time.Second,
		nodeID:           "127.0.0.1",
	}

	u.SetUpfInfo(u, conf)

	deadline := time.Now().Add(5 * time.Second)
	for {
		err := up4.tryConnect()
		if err == nil && up4.IsConnected(nil) {
			break
		}

		if time.Now().After(deadline) {
			t.Fatalf("agent could not connect to the fake switch: %v", err)
		}

		time.Sleep(20 * time.Millisecond)
	}

	pc := &PFCPConn{
		ctx:            context.Background(),
		Conn:           mpConn{},
		rng:            rand.New(rand.NewSource(42)), // #nosec G404
		maxRetries:     100,
		store:          NewInMemoryStore(),
		upf:            u,
		InstrumentPFCP: mpNoMetrics{},
		shutdown:       make(chan struct{}),
		done:           make(chan string, 16),
		hbReset:        make(chan struct{}, 16),
	}
	pc.nodeID.remote = mpSmfNode
	pc.nodeID.local = "127.0.0.1"
	pc.nodeID.localIE = ie.NewNodeID("127.0.0.1", "", "")

	return &mpAgent{t: t, up4: up4, upf: u, pConn: pc}
}

// mpUE describes one PDU session as an SMF would request it: one uplink PDR (ID 1) and one
// downlink PDR (ID 2), an uplink FAR (ID 1) and a downlink FAR (ID 2), one QER (ID 1) and,
// optionally, a session-level QER (ID 4).
type mpUE struct {
	cpSEID uint64
	ueIP   string
	ulTEID uint32
	dlTEID uint32
	gnb    string
	qfi    uint8
	// sdf, when not empty, is the SDF filter of both PDRs
	sdf string
	// sessQER adds a session-level QER (ID 4) to both PDRs
	sessQER bool
	// noTunnel creates the downlink FAR without Outer Header Creation (the gNB is not known yet)
	noTunnel bool

	seid uint64 // the SEID chosen by the UPF
}

func (a *mpAgent) nextSeq() uint32 {
	a.seq++
	return a.seq
}

func mpCause(t *testing.T, c *ie.IE) uint8 {
	t.Helper()

	if c == nil {
		t.Fatalf("response without cause")
	}

	v, err := c.Cause()
	if err != nil {
		t.Fatalf("cause: %v", err)
	}

	return v
}

// establish sends a Session Establishment Request in the way pfcpsim builds it.
func (a *mpAgent) establish(ue *mpUE, dlAction uint8) uint8 {
	a.t.Helper()

	ulPDI := ie.NewPDI(
		ie.NewSourceInterface(ie.SrcInterfaceAccess),
		ie.NewFTEID(0x01, ue.ulTEID, net.ParseIP(mpN3Addr), nil, 0),
	)
	dlPDI := ie.NewPDI(
		ie.NewSourceInterface(ie.SrcInterfaceCore),
		ie.NewUEIPAddress(0x2, ue.ueIP, "", 0, 0),
	)

	if ue.sdf != "" {
		ulPDI.Add(ie.NewSDFFilter(ue.sdf, "", "", "", 1))
		dlPDI.Add(ie.NewSDFFilter(ue.sdf, "", "", "", 1))
	}

	ulPDR := ie.NewCreatePDR(ie.NewPDRID(1), ie.NewPrecedence(255), ie.NewOuterHeaderRemoval(0, 0),
		ie.NewFARID(1), ulPDI, ie.NewQERID(1))
	dlPDR := ie.NewCreatePDR(ie.NewPDRID(2), ie.NewPrecedence(255), ie.NewFARID(2), dlPDI, ie.NewQERID(1))

	if ue.sessQER {
		ulPDR.Add(ie.NewQERID(4))
		dlPDR.Add(ie.NewQERID(4))
	}

	ies := []*ie.IE{
		ulPDR, dlPDR,
		ie.NewCreateFAR(ie.NewFARID(1), ie.NewApplyAction(ActionForward),
			ie.NewForwardingParameters(ie.NewDestinationInterface(ie.DstInterfaceCore))),
		a.dlFAR(ue, dlAction, false),
		ie.NewCreateQER(ie.NewQERID(1), ie.NewQFI(ue.qfi), ie.NewGateStatus(ie.GateStatusOpen, ie.GateStatusOpen),
			ie.NewMBR(50000, 60000)),
	}

	if ue.sessQER {
		ies = append(ies, ie.NewCreateQER(ie.NewQERID(4), ie.NewQFI(0),
			ie.NewGateStatus(ie.GateStatusOpen, ie.GateStatusOpen), ie.NewMBR(500000, 600000)))
	}

	ies = append(ies, ie.NewNodeID(mpSmfNode, "", ""), ie.NewFSEID(ue.cpSEID, net.ParseIP(mpSmfNode), nil))

	req := message.NewSessionEstablishmentRequest(0, 0, 0, a.nextSeq(), 0, ies...)

	res, _ := a.pConn.handleSessionEstablishmentRequest(req)

	r, ok := res.(*message.SessionEstablishmentResponse)
	if !ok {
		a.t.Fatalf("unexpected response %T", res)
	}

	cause := mpCause(a.t, r.Cause)
	if cause == ie.CauseRequestAccepted {
		f, err := r.UPFSEID.FSEID()
		if err != nil {
			a.t.Fatalf("UP F-SEID: %v", err)
		}

		ue.seid = f.SEID
	}

	return cause
}

func (a *mpAgent) dlFAR(ue *mpUE, action uint8, upd bool) *ie.IE {
	params := []*ie.IE{ie.NewDestinationInterface(ie.DstInterfaceAccess)}
	if !ue.noTunnel {
		params = append(params, ie.NewOuterHeaderCreation(0x100, ue.dlTEID, ue.gnb, "", 0, 0, 0))
	}

	if upd {
		return ie.NewUpdateFAR(ie.NewFARID(2), ie.NewApplyAction(action), ie.NewUpdateForwardingParameters(params...))
	}

	if action&ActionForward == 0 {
		// pfcpiface reads the Forwarding Parameters of a new FAR only when it forwards
		return ie.NewCreateFAR(ie.NewFARID(2), ie.NewApplyAction(action))
	}

	return ie.NewCreateFAR(ie.NewFARID(2), ie.NewApplyAction(action), ie.NewForwardingParameters(params...))
}

// modify sends a Session Modification Request with the given IEs.
func (a *mpAgent) modify(ue *mpUE, ies ...*ie.IE) uint8 {
	a.t.Helper()

	req := message.NewSessionModificationRequest(0, 0, ue.seid, a.nextSeq(), 0, ies...)

	res, _ := a.pConn.handleSessionModificationRequest(req)

	r, ok := res.(*message.SessionModificationResponse)
	if !ok {
		a.t.Fatalf("unexpected response %T", res)
	}

	return mpCause(a.t, r.Cause)
}

// setDownlinkAction updates the downlink FAR of the session (what an SMF does on idle / service request).
func (a *mpAgent) setDownlinkAction(ue *mpUE, action uint8) uint8 {
	a.t.Helper()
	return a.modify(ue, a.dlFAR(ue, action, true))
}

func (a *mpAgent) remove(ue *mpUE) uint8 {
	a.t.Helper()

	req := message.NewSessionDeletionRequest(0, 0, ue.seid, a.nextSeq(), 0)

	res, _ := a.pConn.handleSessionDeletionRequest(req)

	r, ok := res.(*message.SessionDeletionResponse)
	if !ok {
		a.t.Fatalf("unexpected response %T", res)
	}

	return mpCause(a.t, r.Cause)
}

func mpIP(s string) uint64 { return uint64(ip2int(net.ParseIP(s).To4())) }

// ---------------------------------------------------------------------------------------------
// demonstration: deletion of a session that has more than one PDR per direction
//
// sessions_uplink is keyed by (N3 address, TEID) and sessions_downlink by the UE address: all
// uplink (downlink) PDRs of a session share ONE entry. (*UP4).modifyUP4ForwardingConfiguration
// nevertheless sends the sessions entry once per PDR. INSERT tolerates the duplicate
// (ALREADY_EXISTS is ignored), DELETE does not (NOT_FOUND is a failure).

// mpFlow is one service data flow of a session: an SDF filter with a precedence and the
// directions for which the SMF creates a PDR.
type mpFlow struct {
	sdf        string // empty: no filter (match-all PDR)
	precedence uint32
	uplink     bool
	downlink   bool
}

// mpPools is a snapshot of everything UP4 hands out per session.
type mpPools struct {
	counterIDs, appMeterCells, sessMeterCells int
	tunnelPeerIDs, tunnelPeers                int
	applicationIDs, applications              int
	meters, ueToFSEID, fseidToUE              int
}

func (a *mpAgent) pools() mpPools {
	up4 := a.up4

	up4.stateMu.Lock()
	defer up4.stateMu.Unlock()
	up4.tunnelPeerMu.Lock()
	defer up4.tunnelPeerMu.Unlock()
	up4.applicationMu.Lock()
	defer up4.applicationMu.Unlock()

	return mpPools{
		counterIDs:     up4.counters[preQosCounterID].counterIDsPool.Cardinality(),
		appMeterCells:  up4.appMeterCellIDsPool.Cardinality(),
		sessMeterCells: up4.sessMeterCellIDsPool.Cardinality(),
		tunnelPeerIDs:  len(up4.tunnelPeerIDsPool),
		tunnelPeers:    len(up4.tunnelPeerIDs),
		applicationIDs: len(up4.applicationIDsPool),
		applications:   len(up4.applicationIDs),
		meters:         len(up4.meters),
		ueToFSEID:      len(up4.ueAddrToFSEID),
		fseidToUE:      len(up4.fseidToUEAddr),
	}
}

// establishFlows sends a Session Establishment Request the way pfcpsim / SD-Core build it for a
// session with several application filters: per flow one uplink PDR (behind the session's single
// F-TEID) and/or one downlink PDR (UE address), the PDRs in the order UL, DL, UL, DL, ...; one
// application QER per flow (ID 10+i) and one session QER (ID 4) referenced by every PDR.
// With ownFARs every PDR gets a FAR of its own, otherwise all uplink PDRs share FAR 1 and all
// downlink PDRs share FAR 2.
func (a *mpAgent) establishFlows(ue *mpUE, flows []mpFlow, ownFARs bool) uint8 {
	a.t.Helper()

	var (
		pdrs, fars, qers []*ie.IE
		pdrID            uint16
		farID            uint32 = 2
	)

	ulFAR := func(id uint32) *ie.IE {
		return ie.NewCreateFAR(ie.NewFARID(id), ie.NewApplyAction(ActionForward),
			ie.NewForwardingParameters(ie.NewDestinationInterface(ie.DstInterfaceCore)))
	}
	dlFAR := func(id uint32) *ie.IE {
		return ie.NewCreateFAR(ie.NewFARID(id), ie.NewApplyAction(ActionForward),
			ie.NewForwardingParameters(ie.NewDestinationInterface(ie.DstInterfaceAccess),
				ie.NewOuterHeaderCreation(0x100, ue.dlTEID, ue.gnb, "", 0, 0, 0)))
	}

	if !ownFARs {
		fars = append(fars, ulFAR(1), dlFAR(2))
	}

	for i, f := range flows {
		appQER := uint32(10 + i)
		qers = append(qers, ie.NewCreateQER(ie.NewQERID(appQER), ie.NewQFI(ue.qfi),
			ie.NewGateStatus(ie.GateStatusOpen, ie.GateStatusOpen), ie.NewMBR(50000, 60000)))

		if f.uplink {
			pdi := ie.NewPDI(
				ie.NewSourceInterface(ie.SrcInterfaceAccess),
				ie.NewFTEID(0x01, ue.ulTEID, net.ParseIP(mpN3Addr), nil, 0),
			)
			if f.sdf != "" {
				pdi.Add(ie.NewSDFFilter(f.sdf, "", "", "", 1))
			}

			far := uint32(1)
			if ownFARs {
				farID++
				far = farID
				fars = append(fars, ulFAR(far))
			}

			pdrID++
			pdrs = append(pdrs, ie.NewCreatePDR(ie.NewPDRID(pdrID), ie.NewPrecedence(f.precedence),
				ie.NewOuterHeaderRemoval(0, 0), ie.NewFARID(far), pdi, ie.NewQERID(appQER), ie.NewQERID(4)))
		}

		if f.downlink {
			pdi := ie.NewPDI(
				ie.NewSourceInterface(ie.SrcInterfaceCore),
				ie.NewUEIPAddress(0x2, ue.ueIP, "", 0, 0),
			)
			if f.sdf != "" {
				pdi.Add(ie.NewSDFFilter(f.sdf, "", "", "", 1))
			}

			far := uint32(2)
			if ownFARs {
				farID++
				far = farID
				fars = append(fars, dlFAR(far))
			}

			pdrID++
			pdrs = append(pdrs, ie.NewCreatePDR(ie.NewPDRID(pdrID), ie.NewPrecedence(f.precedence),
				ie.NewFARID(far), pdi, ie.NewQERID(appQER), ie.NewQERID(4)))
		}
	}

	qers = append(qers, ie.NewCreateQER(ie.NewQERID(4), ie.NewQFI(0),
		ie.NewGateStatus(ie.GateStatusOpen, ie.GateStatusOpen), ie.NewMBR(500000, 600000)))

	ies := append(append(append([]*ie.IE{}, pdrs...), fars...), qers...)
	ies = append(ies, ie.NewNodeID(mpSmfNode, "", ""), ie.NewFSEID(ue.cpSEID, net.ParseIP(mpSmfNode), nil))

	res, _ := a.pConn.handleSessionEstablishmentRequest(
		message.NewSessionEstablishmentRequest(0, 0, 0, a.nextSeq(), 0, ies...))

	r, ok := res.(*message.SessionEstablishmentResponse)
	if !ok {
		a.t.Fatalf("unexpected response %T", res)
	}

	cause := mpCause(a.t, r.Cause)
	if cause == ie.CauseRequestAccepted {
		f, err := r.UPFSEID.FSEID()
		if err != nil {
			a.t.Fatalf("UP F-SEID: %v", err)
		}

		ue.seid = f.SEID
	}

	return cause
}

var mpSessionTables = []uint32{
	p4constants.TablePreQosPipeSessionsUplink, p4constants.TablePreQosPipeSessionsDownlink,
	p4constants.TablePreQosPipeTerminationsUplink, p4constants.TablePreQosPipeTerminationsDownlink,
	p4constants.TablePreQosPipeApplications, p4constants.TablePreQosPipeTunnelPeers,
}

func mpTableName(id uint32) string {
	return strings.TrimPrefix(p4constants.GetTableIDToNameMap()[id], "PreQosPipe.")
}

// mpWriteLog records the result of every table update the switch sees while it is switched on and
// can make chosen updates fail.
type mpWriteLog struct {
	mu    sync.Mutex
	on    bool
	lines []string
	// fault, when set, is consulted for every table update: a non-nil result fails the update
	fault func(u *p4.Update, table string) *p4.Error
}

// mpRecordWrites hooks into the switch's Write handler. Unless a fault is set it is a pure observer:
// it derives the outcome of the update from the table state and lets the switch decide.
func mpRecordWrites(sw *mpSwitch) *mpWriteLog {
	l := &mpWriteLog{}

	sw.mu.Lock()
	defer sw.mu.Unlock()

	// called with sw.mu held, before the update is applied
	sw.failWrite = func(u *p4.Update) *p4.Error {
		l.mu.Lock()
		defer l.mu.Unlock()

		te := u.GetEntity().GetTableEntry()
		if te == nil {
			return nil
		}

		_, exists := sw.tables[te.TableId][mpEntryKey(te)]
		d := sw.decode(te)

		var injected *p4.Error
		if l.fault != nil {
			injected = l.fault(u, d.table)
		}

		outcome := "OK"

		switch {
		case injected != nil:
			outcome = codes.Code(injected.CanonicalCode).String() + " (injected fault)"
		case u.Type == p4.Update_INSERT && exists:
			outcome = "ALREADY_EXISTS"
		case u.Type != p4.Update_INSERT && !exists:
			outcome = "NOT_FOUND"
		}

		if l.on {
			l.lines = append(l.lines, fmt.Sprintf("%-6v %-22s %v -> %s", u.Type, d.table, d.match, outcome))
		}

		return injected
	}

	return l
}

func (l *mpWriteLog) start() {
	l.mu.Lock()
	defer l.mu.Unlock()

	l.on, l.lines = true, nil
}

func (l *mpWriteLog) stop() string {
	l.mu.Lock()
	defer l.mu.Unlock()

	l.on = false

	return "        " + strings.Join(l.lines, "\n        ")
}

func (l *mpWriteLog) setFault(f func(u *p4.Update, table string) *p4.Error) {
	l.mu.Lock()
	defer l.mu.Unlock()

	l.fault = f
}

type mpWant struct {
	sessUL, sessDL, termUL, termDL, apps, peers int
}

// mpScenario is an agent connected to a switch, with one accepted session whose entries have all
// been verified in the switch.
type mpScenario struct {
	t       *testing.T
	sw      *mpSwitch
	a       *mpAgent
	wl      *mpWriteLog
	ue      *mpUE
	initial mpPools // before the session
	during  mpPools // while the session exists
}

// mpEstablished establishes one session made of the given flows, checks that the establishment was
// accepted, that every expected entry landed in the switch and that the UP4 pools were charged.
func mpEstablished(t *testing.T, flows []mpFlow, ownFARs bool, want mpWant) *mpScenario {
	sw := mpStartSwitch(t)
	a := mpStartAgent(t, sw, P4rtcInfo{SliceID: 0, DefaultTC: 3})
	s := &mpScenario{t: t, sw: sw, a: a, wl: mpRecordWrites(sw)}

	s.initial = a.pools()
	t.Logf("initial pools: %+v", s.initial)

	for _, tbl := range mpSessionTables {
		if es := sw.entries(tbl); len(es) != 0 {
			t.Fatalf("switch not empty at start: %v", es)
		}
	}

	s.ue = &mpUE{cpSEID: 1, ueIP: "10.250.0.1", ulTEID: 101, dlTEID: 201, gnb: "198.18.1.1", qfi: 9}

	s.wl.start()

	if c := a.establishFlows(s.ue, flows, ownFARs); c != ie.CauseRequestAccepted {
		t.Fatalf("establishment rejected, cause %d\n%s", c, sw.dump())
	}

	t.Logf("table updates seen by the switch during establishment:\n%s", s.wl.stop())
	t.Logf("UP4 tables after establishment:\n%s", sw.dump())

	sess, ok := a.pConn.store.GetSession(s.ue.seid)
	if !ok {
		t.Fatalf("accepted session %d is not in the store", s.ue.seid)
	}

	for tbl, n := range map[uint32]int{
		p4constants.TablePreQosPipeSessionsUplink:       want.sessUL,
		p4constants.TablePreQosPipeSessionsDownlink:     want.sessDL,
		p4constants.TablePreQosPipeTerminationsUplink:   want.termUL,
		p4constants.TablePreQosPipeTerminationsDownlink: want.termDL,
		p4constants.TablePreQosPipeApplications:         want.apps,
		p4constants.TablePreQosPipeTunnelPeers:          want.peers,
	} {
		if es := sw.entries(tbl); len(es) != n {
			t.Fatalf("after establishment: want %d entries in table %s, have %d: %v", n, mpTableName(tbl), len(es), es)
		}
	}

	// every terminations entry belongs to the UE and sits under an application ID of its own
	for _, tbl := range []uint32{p4constants.TablePreQosPipeTerminationsUplink, p4constants.TablePreQosPipeTerminationsDownlink} {
		seen := map[string]bool{}

		for _, e := range sw.entries(tbl) {
			if e.match["ue_address"] != fmt.Sprint(mpIP(s.ue.ueIP)) {
				t.Fatalf("after establishment: foreign entry %v", e)
			}

			if seen[e.match["app_id"]] {
				t.Fatalf("after establishment: two terminations under one app ID: %v", e)
			}

			seen[e.match["app_id"]] = true
		}
	}

	s.during = a.pools()
	t.Logf("pools while the session exists: %+v", s.during)

	if got := s.initial.counterIDs - s.during.counterIDs; got != len(sess.pdrs) {
		t.Fatalf("after establishment: want %d counter cells in use, have %d", len(sess.pdrs), got)
	}

	if got := s.initial.sessMeterCells - s.during.sessMeterCells; got != 2 {
		t.Fatalf("after establishment: want 2 session meter cells in use, have %d", got)
	}

	if got := s.initial.appMeterCells - s.during.appMeterCells; got != len(flows) {
		t.Fatalf("after establishment: want %d app meter cells in use, have %d", len(flows), got)
	}

	if got := s.initial.tunnelPeerIDs - s.during.tunnelPeerIDs; got != 1 {
		t.Fatalf("after establishment: want 1 tunnel peer ID in use, have %d", got)
	}

	return s
}

// checkSwitchClean: (b) the switch holds nothing of the session any more.
func (s *mpScenario) checkSwitchClean(when string) {
	for _, tbl := range mpSessionTables {
		if left := s.sw.entries(tbl); len(left) != 0 {
			s.t.Errorf("(b) %s table %s still holds %v", when, mpTableName(tbl), left)
		}
	}

	if cells := s.sw.meterCells(p4constants.MeterPreQosPipeAppMeter); len(cells) != 0 {
		s.t.Errorf("(b) %s app meter cells are still configured: %v", when, cells)
	}

	if cells := s.sw.meterCells(p4constants.MeterPreQosPipeSessionMeter); len(cells) != 0 {
		s.t.Errorf("(b) %s session meter cells are still configured: %v", when, cells)
	}
}

// checkStoreEmpty: (c) the session is gone from the PFCP connection's store.
func (s *mpScenario) checkStoreEmpty(when string) {
	if _, still := s.a.pConn.store.GetSession(s.ue.seid); still {
		s.t.Errorf("(c) %s the session %d is still in the store", when, s.ue.seid)
	}

	if n := len(s.a.pConn.store.GetAllSessions()); n != 0 {
		s.t.Errorf("(c) %s the store holds %d session(s)", when, n)
	}
}

// checkPoolsRestored: (d) everything UP4 handed out for the session is back, exactly once.
func (s *mpScenario) checkPoolsRestored(when string) {
	if after := s.a.pools(); after != s.initial {
		s.t.Errorf("(d) UP4 pools %s differ from the initial ones:\n        initial %+v\n        now     %+v", when, s.initial, after)
	}
}

// mpRunDeletion: establish, delete with a Session Deletion Request, check (a) - (d).
func mpRunDeletion(t *testing.T, flows []mpFlow, ownFARs bool, want mpWant) {
	s := mpEstablished(t, flows, ownFARs, want)

	s.wl.start()

	cause := s.a.remove(s.ue)

	t.Logf("table updates seen by the switch during the Session Deletion Request:\n%s", s.wl.stop())

	// (a)
	if cause != ie.CauseRequestAccepted {
		t.Errorf("(a) Session Deletion Request answered with cause %d, want %d (Request accepted); "+
			"the switch is healthy and held every entry of the session", cause, ie.CauseRequestAccepted)
	}

	s.checkSwitchClean("after the deletion")
	s.checkStoreEmpty("after the deletion")
	s.checkPoolsRestored("after the deletion")

	if !t.Failed() {
		return
	}

	// what an SMF does next: it repeats the request
	s.wl.start()

	cause = s.a.remove(s.ue)

	t.Logf("table updates seen by the switch during the repeated Session Deletion Request:\n%s", s.wl.stop())

	if cause != ie.CauseRequestAccepted {
		t.Errorf("the repeated Session Deletion Request is answered with cause %d as well", cause)
	}

	t.Logf("UP4 tables at the end:\n%s", s.sw.dump())
	t.Logf("pools at the end: %+v", s.a.pools())
}

const (
	mpSdfDNS = "permit out udp from 8.8.8.8/32 53 to assigned"
	mpSdfWeb = "permit out tcp from 192.0.2.0/24 80-443 to assigned"
)

var (
	mpOneULOneDL = []mpFlow{{sdf: mpSdfDNS, precedence: 100, uplink: true, downlink: true}}
	mpTwoULOneDL = []mpFlow{
		{sdf: mpSdfDNS, precedence: 100, uplink: true, downlink: true},
		{sdf: mpSdfWeb, precedence: 200, uplink: true},
	}
	mpTwoULTwoDL = []mpFlow{
		{sdf: mpSdfDNS, precedence: 100, uplink: true, downlink: true},
		{sdf: mpSdfWeb, precedence: 200, uplink: true, downlink: true},
	}
	mpOneULTwoDL = []mpFlow{
		{sdf: mpSdfDNS, precedence: 100, uplink: true, downlink: true},
		{sdf: mpSdfWeb, precedence: 200, downlink: true},
	}
)

// Control: the classic session, one uplink and one downlink PDR.
func TestMultiPDRControlOneUplinkOneDownlink(t *testing.T) {
	mpRunDeletion(t, mpOneULOneDL, false, mpWant{sessUL: 1, sessDL: 1, termUL: 1, termDL: 1, apps: 1, peers: 1})
}

// Two application filters in the uplink behind the same F-TEID, one downlink PDR; shared FARs.
func TestMultiPDRTwoUplinkOneDownlink(t *testing.T) {
	mpRunDeletion(t, mpTwoULOneDL, false, mpWant{sessUL: 1, sessDL: 1, termUL: 2, termDL: 1, apps: 2, peers: 1})
}

// What pfcpsim / SD-Core send for a session with two application filters: UL, DL, UL, DL, every
// PDR with its own FAR.
func TestMultiPDRTwoUplinkTwoDownlinkOwnFARs(t *testing.T) {
	mpRunDeletion(t, mpTwoULTwoDL, true, mpWant{sessUL: 1, sessDL: 1, termUL: 2, termDL: 2, apps: 2, peers: 1})
}

// The mirror image: one uplink PDR, two downlink PDRs for the same UE address.
func TestMultiPDROneUplinkTwoDownlink(t *testing.T) {
	mpRunDeletion(t, mpOneULTwoDL, false, mpWant{sessUL: 1, sessDL: 1, termUL: 1, termDL: 2, apps: 2, peers: 1})
}

// The other way a session ends: the association is released or times out and the PFCP connection
// is shut down. The result of the deletion is not looked at there, the session record is dropped
// in any case: what the rejected deletion did not remove stays behind for good.
func TestMultiPDRAssociationShutdown(t *testing.T) {
	s := mpEstablished(t, mpTwoULTwoDL, true, mpWant{sessUL: 1, sessDL: 1, termUL: 2, termDL: 2, apps: 2, peers: 1})

	s.wl.start()
	s.a.pConn.Shutdown()
	t.Logf("table updates seen by the switch during the shutdown of the PFCP connection:\n%s", s.wl.stop())

	s.checkStoreEmpty("after the shutdown")
	s.checkSwitchClean("after the shutdown")
	s.checkPoolsRestored("after the shutdown")

	if t.Failed() {
		t.Logf("UP4 tables at the end:\n%s", s.sw.dump())
	}
}

// Guard for a repair: a deletion that fails for a real reason (here: the switch answers INTERNAL
// to one DELETE) must still be rejected and must not release anything; once the switch has
// recovered, the repeated deletion must release everything exactly once.
// On the unrepaired tree the first half holds and the second half fails, also for the classic
// 1 UL + 1 DL session: the entries removed by the first attempt are NOT_FOUND in the second one,
// which is counted as a failure again - such a session can never be deleted.
func TestMultiPDRRealFailureIsStillRejected(t *testing.T) {
	for _, tc := range []struct {
		name       string
		flows      []mpFlow
		want       mpWant
		faultTable string
	}{
		{"1UL+1DL, sessions_downlink fails", mpOneULOneDL, mpWant{1, 1, 1, 1, 1, 1}, "sessions_downlink"},
		{"2UL+1DL, sessions_downlink fails", mpTwoULOneDL, mpWant{1, 1, 2, 1, 2, 1}, "sessions_downlink"},
		{"2UL+1DL, terminations_downlink fails", mpTwoULOneDL, mpWant{1, 1, 2, 1, 2, 1}, "terminations_downlink"},
	} {
		tc := tc

		t.Run(tc.name, func(t *testing.T) {
			s := mpEstablished(t, tc.flows, false, tc.want)

			s.wl.setFault(func(u *p4.Update, table string) *p4.Error {
				if u.Type == p4.Update_DELETE && table == tc.faultTable {
					return &p4.Error{CanonicalCode: int32(codes.Internal), Message: "injected fault"}
				}

				return nil
			})

			s.wl.start()

			cause := s.a.remove(s.ue)

			t.Logf("table updates seen by the switch during the Session Deletion Request (switch faulty):\n%s", s.wl.stop())

			if cause != ie.CauseRequestRejected {
				t.Errorf("the switch failed a DELETE with INTERNAL, yet the deletion is answered with cause %d", cause)
			}

			if _, ok := s.a.pConn.store.GetSession(s.ue.seid); !ok {
				t.Errorf("the deletion was rejected, yet the session is gone from the store")
			}

			// application IDs are given back while the entries are built: leave them out here
			now := s.a.pools()
			now.applicationIDs, now.applications = s.during.applicationIDs, s.during.applications

			if now != s.during {
				t.Errorf("the deletion was rejected, yet the pools changed:\n        before %+v\n        now    %+v", s.during, now)
			}

			// the switch recovers, the SMF repeats the request
			s.wl.setFault(nil)
			s.wl.start()

			cause = s.a.remove(s.ue)

			t.Logf("table updates seen by the switch during the repeated Session Deletion Request (switch healthy):\n%s", s.wl.stop())

			if cause != ie.CauseRequestAccepted {
				t.Errorf("the repeated Session Deletion Request is answered with cause %d, want %d", cause, ie.CauseRequestAccepted)
			}

			s.checkStoreEmpty("after the repeated deletion")
			s.checkPoolsRestored("after the repeated deletion")

			// Not asserted: whether the switch is clean now. The reference on the application ID is
			// dropped before the DELETEs are written; if the write of the terminations entry then
			// fails, the repeated deletion no longer knows the application ID and addresses the
			// entry under app ID 0.
			for _, tbl := range mpSessionTables {
				if left := s.sw.entries(tbl); len(left) != 0 {
					t.Logf("NOTE: after the repeated deletion table %s still holds %v", mpTableName(tbl), left)
				}
			}
		})
	}
}
