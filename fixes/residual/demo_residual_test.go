// SPDX-License-Identifier: Apache-2.0

package pfcpiface

// Residual histories around "what the UPF allocated for a session is free again after the Session
// Deletion". Every Test function drives the real PFCP handlers through (*PFCPConn).HandlePFCPMsg with
// encoded PFCP messages. The file is self-contained (all helper names start with "resid"), so it can
// live next to the other demonstration files.
//
//	R1  establish (CHOOSE F-TEID + CHV4 UE IP) -> Remove PDR of both PDRs -> delete
//	R2  establish with CHV4 on an access-side PDR only -> delete
//	R3  establish -> refused modification carrying a Create PDR with CHV4 -> delete
//	R4  UP4: establish (downlink FAR to gNB A) -> Update FAR moves the tunnel to gNB B -> delete
//
// R1-R3 use a datapath that accepts everything. R4 uses the real UP4 datapath (sendCreate / sendUpdate /
// sendDelete, the real P4rtTranslator with conf/p4/bin/p4info.txt and the real P4rtClient) on top of a
// fake gRPC stub; only the connection handling at the top of (*UP4).SendMsgToUPF (tryConnect, which
// dials the switch) is bypassed by a thin wrapper that otherwise repeats SendMsgToUPF literally.

import (
	"context"
	"math/rand"
	"net"
	"os"
	"sync"
	"testing"
	"time"

	//nolint:staticcheck // same (deprecated) proto package as p4rtc.go uses to read the P4Info
	"github.com/golang/protobuf/proto"
	p4ConfigV1 "github.com/p4lang/p4runtime/go/p4/config/v1"
	p4 "github.com/p4lang/p4runtime/go/p4/v1"
	"github.com/prometheus/client_golang/prometheus"
	"github.com/wmnsk/go-pfcp/ie"
	"github.com/wmnsk/go-pfcp/message"
	"google.golang.org/grpc"

	"github.com/omec-project/upf-epc/pfcpiface/metrics"
)

// ---------------------------------------------------------------------------------------------------
// harness
// ---------------------------------------------------------------------------------------------------

// residDatapath accepts everything.
type residDatapath struct{}

func (residDatapath) Exit()                                                        {}
func (residDatapath) SetUpfInfo(u *upf, conf *Conf)                                {}
func (residDatapath) AddSliceInfo(sliceInfo *SliceInfo) error                      { return nil }
func (residDatapath) SendEndMarkers(endMarkerList *[][]byte) error                 { return nil }
func (residDatapath) IsConnected(accessIP *net.IP) bool                            { return true }
func (residDatapath) SummaryLatencyJitter(*upfCollector, chan<- prometheus.Metric) {}
func (residDatapath) PortStats(*upfCollector, chan<- prometheus.Metric)            {}
func (residDatapath) SummaryGtpuLatency(*upfCollector, chan<- prometheus.Metric)   {}
func (residDatapath) SessionStats(*PfcpNodeCollector, chan<- prometheus.Metric) error {
	return nil
}

func (residDatapath) SendMsgToUPF(upfMsgType, PacketForwardingRules, PacketForwardingRules) uint8 {
	return ie.CauseRequestAccepted
}

type residMetrics struct{}

func (residMetrics) SaveMessages(*metrics.Message) {}
func (residMetrics) SaveSessions(*metrics.Session) {}
func (residMetrics) Stop() error                   { return nil }

// residConn is the "socket": it records what the agent sends.
type residConn struct {
	mu   sync.Mutex
	sent [][]byte
}

func (c *residConn) Read([]byte) (int, error) { select {} }
func (c *residConn) Write(b []byte) (int, error) {
	c.mu.Lock()
	defer c.mu.Unlock()
	c.sent = append(c.sent, append([]byte(nil), b...))

	return len(b), nil
}
func (c *residConn) Close() error { return nil }
func (c *residConn) LocalAddr() net.Addr {
	return &net.UDPAddr{IP: net.IPv4(127, 0, 0, 1), Port: 8805}
}
func (c *residConn) RemoteAddr() net.Addr {
	return &net.UDPAddr{IP: net.IPv4(127, 0, 0, 2), Port: 8805}
}
func (c *residConn) SetDeadline(time.Time) error      { return nil }
func (c *residConn) SetReadDeadline(time.Time) error  { return nil }
func (c *residConn) SetWriteDeadline(time.Time) error { return nil }

// last returns the last message the agent sent and forgets what was sent.
func (c *residConn) last(t *testing.T) message.Message {
	t.Helper()
	c.mu.Lock()
	defer c.mu.Unlock()

	if len(c.sent) == 0 {
		t.Fatalf("the agent sent no reply")
	}

	b := c.sent[len(c.sent)-1]
	c.sent = nil

	m, err := message.Parse(b)
	if err != nil {
		t.Fatalf("the reply of the agent cannot be decoded: %v", err)
	}

	return m
}

const (
	residSMFNodeID = "198.18.1.1"
	residAccessIP  = "198.18.0.1"
	residPool      = "10.250.0.0/30" // two usable addresses: .1 and .2
	residPoolSize  = 2
	residUplinkPDR = 1
	residDownlkPDR = 2
	residUplinkFAR = 1
	residDownlkFAR = 2
)

type residEnv struct {
	conn  *residConn
	pConn *PFCPConn
	upf   *upf
	seq   uint32
}

// newResidEnv builds a PFCP connection with an established association on top of the given datapath.
func newResidEnv(t *testing.T, dp datapath) *residEnv {
	t.Helper()

	pool, err := NewIPPool(residPool)
	if err != nil {
		t.Fatalf("NewIPPool: %v", err)
	}

	if len(pool.freePool) != residPoolSize {
		t.Fatalf("test setup: pool has %d addresses, want %d", len(pool.freePool), residPoolSize)
	}

	u := &upf{
		enableUeIPAlloc: true,
		ippoolCidr:      residPool,
		ippool:          pool,
		accessIP:        net.ParseIP(residAccessIP).To4(),
		coreIP:          net.ParseIP("198.18.2.1").To4(),
		fteidGenerator:  NewFTEIDGenerator(),
		datapath:        dp,
		respTimeout:     time.Second,
		readTimeout:     time.Second,
	}

	conn := &residConn{}
	pConn := &PFCPConn{
		Conn:           conn,
		ts:             recoveryTS{local: time.Now()},
		rng:            rand.New(rand.NewSource(1)), // #nosec G404
		maxRetries:     100,
		store:          NewInMemoryStore(),
		upf:            u,
		done:           make(chan string, 1),
		shutdown:       make(chan struct{}),
		InstrumentPFCP: residMetrics{},
		hbReset:        make(chan struct{}, 100),
	}
	pConn.setLocalNodeID("")

	e := &residEnv{conn: conn, pConn: pConn, upf: u}

	e.send(t, message.NewAssociationSetupRequest(e.nextSeq(),
		ie.NewNodeID(residSMFNodeID, "", ""),
		ie.NewRecoveryTimeStamp(time.Now()),
	))

	asres, ok := conn.last(t).(*message.AssociationSetupResponse)
	if !ok {
		t.Fatalf("no Association Setup Response")
	}

	if c, err := asres.Cause.Cause(); err != nil || c != ie.CauseRequestAccepted {
		t.Fatalf("association not accepted: cause %v, %v", c, err)
	}

	return e
}

func (e *residEnv) nextSeq() uint32 {
	e.seq++
	return e.seq
}

// send encodes the message and hands the bytes to the agent, as the read loop of Serve does.
func (e *residEnv) send(t *testing.T, m message.Message) {
	t.Helper()

	b := make([]byte, m.MarshalLen())
	if err := m.MarshalTo(b); err != nil {
		t.Fatalf("cannot encode %s: %v", m.MessageTypeName(), err)
	}

	e.pConn.HandlePFCPMsg(b)
}

type residSession struct {
	localSEID uint64
	teid      uint32 // TEID the UPF chose, 0 if none
	ueIP      net.IP // UE IP the UPF chose, nil if none
}

// establish sends a Session Establishment Request with the given rules and requires its acceptance.
func (e *residEnv) establish(t *testing.T, remoteSEID uint64, rules ...*ie.IE) residSession {
	t.Helper()

	ies := append([]*ie.IE{
		ie.NewNodeID(residSMFNodeID, "", ""),
		ie.NewFSEID(remoteSEID, net.ParseIP(residSMFNodeID), nil),
	}, rules...)

	e.send(t, message.NewSessionEstablishmentRequest(0, 0, 0, e.nextSeq(), 0, ies...))

	seres, ok := e.conn.last(t).(*message.SessionEstablishmentResponse)
	if !ok {
		t.Fatalf("no Session Establishment Response")
	}

	if c, err := seres.Cause.Cause(); err != nil || c != ie.CauseRequestAccepted {
		t.Fatalf("test setup: Session Establishment refused: cause %v, %v", c, err)
	}

	fseid, err := seres.UPFSEID.FSEID()
	if err != nil {
		t.Fatalf("no UP F-SEID in the response: %v", err)
	}

	s := residSession{localSEID: fseid.SEID}

	for _, created := range seres.CreatedPDR {
		if f, err := created.FTEID(); err == nil {
			s.teid = f.TEID
		}

		if a, err := created.UEIPAddress(); err == nil {
			s.ueIP = a.IPv4Address
		}
	}

	return s
}

// modify sends a Session Modification Request and returns the cause of the response.
func (e *residEnv) modify(t *testing.T, s residSession, ies ...*ie.IE) uint8 {
	t.Helper()

	e.send(t, message.NewSessionModificationRequest(0, 0, s.localSEID, e.nextSeq(), 0, ies...))

	smres, ok := e.conn.last(t).(*message.SessionModificationResponse)
	if !ok {
		t.Fatalf("no Session Modification Response")
	}

	c, err := smres.Cause.Cause()
	if err != nil {
		t.Fatalf("Session Modification Response without cause: %v", err)
	}

	return c
}

// remove deletes the session and requires the acceptance of the deletion.
func (e *residEnv) remove(t *testing.T, s residSession) {
	t.Helper()

	e.send(t, message.NewSessionDeletionRequest(0, 0, s.localSEID, e.nextSeq(), 0))

	sdres, ok := e.conn.last(t).(*message.SessionDeletionResponse)
	if !ok {
		t.Fatalf("no Session Deletion Response")
	}

	if c, err := sdres.Cause.Cause(); err != nil || c != ie.CauseRequestAccepted {
		t.Fatalf("Session Deletion refused: cause %v, %v", c, err)
	}

	if _, ok := e.pConn.store.GetSession(s.localSEID); ok {
		t.Fatalf("session %d still stored after its deletion", s.localSEID)
	}
}

// checkNothingAllocated: no session exists, so the generator and the pool must be as at the start.
func (e *residEnv) checkNothingAllocated(t *testing.T, s residSession) {
	t.Helper()

	if s.teid != 0 && e.upf.fteidGenerator.IsAllocated(s.teid) {
		t.Errorf("LEAK: TEID %d chosen by the UPF for session %d is still allocated in the FTEIDGenerator after the Session Deletion",
			s.teid, s.localSEID)
	}

	if n := len(e.upf.fteidGenerator.usedMap); n != 0 {
		t.Errorf("LEAK: %d TEID(s) still allocated in the FTEIDGenerator with no session left", n)
	}

	e.upf.ippool.mu.Lock()
	ip, held := e.upf.ippool.inventory[s.localSEID]
	free := len(e.upf.ippool.freePool)
	e.upf.ippool.mu.Unlock()

	if held {
		t.Errorf("LEAK: UE IP %v is still allocated to the deleted session %d in the IPPool", ip, s.localSEID)
	}

	if free != residPoolSize {
		t.Errorf("LEAK: the IPPool has %d free addresses after the Session Deletion, want %d (no session left)",
			free, residPoolSize)
	}
}

// the usual rules: the UPF chooses the TEID of the uplink PDR and the UE IP address (downlink PDR)
func residChooseRules() []*ie.IE {
	return []*ie.IE{
		ie.NewCreatePDR(
			ie.NewPDRID(residUplinkPDR),
			ie.NewPrecedence(100),
			ie.NewPDI(
				ie.NewSourceInterface(ie.SrcInterfaceAccess),
				ie.NewFTEID(0x05 /* V4 | CH */, 0, nil, nil, 0),
			),
			ie.NewOuterHeaderRemoval(0, 0),
			ie.NewFARID(residUplinkFAR),
		),
		ie.NewCreatePDR(
			ie.NewPDRID(residDownlkPDR),
			ie.NewPrecedence(100),
			ie.NewPDI(
				ie.NewSourceInterface(ie.SrcInterfaceCore),
				ie.NewUEIPAddress(0x12 /* V4 | CHV4 */, "", "", 0, 0),
			),
			ie.NewFARID(residDownlkFAR),
		),
		ie.NewCreateFAR(
			ie.NewFARID(residUplinkFAR),
			ie.NewApplyAction(ActionForward),
			ie.NewForwardingParameters(ie.NewDestinationInterface(ie.DstInterfaceCore)),
		),
		ie.NewCreateFAR(
			ie.NewFARID(residDownlkFAR),
			ie.NewApplyAction(ActionDrop),
		),
	}
}

// ---------------------------------------------------------------------------------------------------
// control: the plain history gives everything back (the harness is sound)
// ---------------------------------------------------------------------------------------------------

func TestResidual_R0_Control_EstablishDelete(t *testing.T) {
	e := newResidEnv(t, residDatapath{})

	s := e.establish(t, 1000, residChooseRules()...)
	if s.teid == 0 || s.ueIP == nil {
		t.Fatalf("test setup: the response does not report the TEID / UE IP the UPF chose: %+v", s)
	}

	if !e.upf.fteidGenerator.IsAllocated(s.teid) || len(e.upf.ippool.inventory) != 1 {
		t.Fatalf("test setup: TEID / UE IP of the live session are not allocated")
	}

	e.remove(t, s)
	e.checkNothingAllocated(t, s)
}

// ---------------------------------------------------------------------------------------------------
// R1: Remove PDR of the PDRs that carry the allocations, then Session Deletion
// ---------------------------------------------------------------------------------------------------

func TestResidual_R1_RemoveBothPDRsThenDelete(t *testing.T) {
	e := newResidEnv(t, residDatapath{})

	s := e.establish(t, 1000, residChooseRules()...)
	if s.teid == 0 || s.ueIP == nil {
		t.Fatalf("test setup: the response does not report the TEID / UE IP the UPF chose: %+v", s)
	}

	cause := e.modify(t, s,
		ie.NewRemovePDR(ie.NewPDRID(residUplinkPDR)),
		ie.NewRemovePDR(ie.NewPDRID(residDownlkPDR)),
		ie.NewRemoveFAR(ie.NewFARID(residUplinkFAR)),
		ie.NewRemoveFAR(ie.NewFARID(residDownlkFAR)),
	)
	if cause != ie.CauseRequestAccepted {
		t.Fatalf("test setup: Session Modification with Remove PDR / Remove FAR refused: cause %d", cause)
	}

	stored, ok := e.pConn.store.GetSession(s.localSEID)
	if !ok || len(stored.pdrs) != 0 || len(stored.fars) != 0 {
		t.Fatalf("test setup: the session should be stored without rules now: found=%v %v", ok, stored)
	}

	t.Logf("after the Remove PDRs (session alive, no PDR left): TEID %d allocated: %v; pool: %v",
		s.teid, e.upf.fteidGenerator.IsAllocated(s.teid), e.upf.ippool)

	e.remove(t, s)
	e.checkNothingAllocated(t, s)
}

// ---------------------------------------------------------------------------------------------------
// R2: CHV4 on an access-side (uplink) PDR only, then Session Deletion (no modification at all)
// ---------------------------------------------------------------------------------------------------

func TestResidual_R2_CHV4OnAccessPDROnly(t *testing.T) {
	e := newResidEnv(t, residDatapath{})

	s := e.establish(t, 1000,
		ie.NewCreatePDR(
			ie.NewPDRID(residUplinkPDR),
			ie.NewPrecedence(100),
			ie.NewPDI(
				ie.NewSourceInterface(ie.SrcInterfaceAccess),
				ie.NewFTEID(0x01 /* V4 */, 55, net.ParseIP(residAccessIP), nil, 0),
				ie.NewUEIPAddress(0x12 /* V4 | CHV4 */, "", "", 0, 0),
			),
			ie.NewOuterHeaderRemoval(0, 0),
			ie.NewFARID(residUplinkFAR),
		),
		ie.NewCreateFAR(
			ie.NewFARID(residUplinkFAR),
			ie.NewApplyAction(ActionForward),
			ie.NewForwardingParameters(ie.NewDestinationInterface(ie.DstInterfaceCore)),
		),
	)

	// the address was taken from the pool for this session (the response does not even report it)
	if ip, held := e.upf.ippool.inventory[s.localSEID]; !held {
		t.Fatalf("test setup: no UE IP was allocated for the session")
	} else {
		t.Logf("UE IP %v allocated for session %d; reported in a Created PDR: %v", ip, s.localSEID, s.ueIP != nil)
	}

	e.remove(t, s)
	e.checkNothingAllocated(t, s)
}

// ---------------------------------------------------------------------------------------------------
// R3: a refused Session Modification that carried a Create PDR with CHV4, then Session Deletion
// ---------------------------------------------------------------------------------------------------

func TestResidual_R3_RefusedModificationWithCHV4(t *testing.T) {
	e := newResidEnv(t, residDatapath{})

	// a session without any UPF-side allocation
	s := e.establish(t, 1000,
		ie.NewCreatePDR(
			ie.NewPDRID(residUplinkPDR),
			ie.NewPrecedence(100),
			ie.NewPDI(
				ie.NewSourceInterface(ie.SrcInterfaceAccess),
				ie.NewFTEID(0x01 /* V4 */, 55, net.ParseIP(residAccessIP), nil, 0),
			),
			ie.NewOuterHeaderRemoval(0, 0),
			ie.NewFARID(residUplinkFAR),
		),
		ie.NewCreateFAR(
			ie.NewFARID(residUplinkFAR),
			ie.NewApplyAction(ActionForward),
			ie.NewForwardingParameters(ie.NewDestinationInterface(ie.DstInterfaceCore)),
		),
	)

	if len(e.upf.ippool.inventory) != 0 {
		t.Fatalf("test setup: an address is allocated although none was asked for")
	}

	// the Create PDR is fine (the UPF picks the UE IP), the Create FAR is not (Apply Action 0): refused
	cause := e.modify(t, s,
		ie.NewCreatePDR(
			ie.NewPDRID(residDownlkPDR),
			ie.NewPrecedence(100),
			ie.NewPDI(
				ie.NewSourceInterface(ie.SrcInterfaceCore),
				ie.NewUEIPAddress(0x12 /* V4 | CHV4 */, "", "", 0, 0),
			),
			ie.NewFARID(residDownlkFAR),
		),
		ie.NewCreateFAR(
			ie.NewFARID(residDownlkFAR),
			ie.NewApplyAction(0),
		),
	)
	if cause == ie.CauseRequestAccepted {
		t.Fatalf("test setup: the Session Modification was expected to be refused")
	}

	stored, _ := e.pConn.store.GetSession(s.localSEID)
	t.Logf("modification refused with cause %d; stored session has %d PDR(s); pool: %v", cause, len(stored.pdrs), e.upf.ippool)

	e.remove(t, s)
	e.checkNothingAllocated(t, s)
}

// ---------------------------------------------------------------------------------------------------
// R4: UP4 tunnel peers across an Update FAR that moves the tunnel to another gNB
// ---------------------------------------------------------------------------------------------------

// residP4Stub is the gRPC stub of the switch: only Write is implemented, it accepts everything.
type residP4Stub struct {
	p4.P4RuntimeClient // nil: any other call would panic, none is expected
	mu                 sync.Mutex
	writes             []*p4.WriteRequest
}

func (s *residP4Stub) Write(_ context.Context, in *p4.WriteRequest, _ ...grpc.CallOption) (*p4.WriteResponse, error) {
	s.mu.Lock()
	defer s.mu.Unlock()
	s.writes = append(s.writes, in)

	return &p4.WriteResponse{}, nil
}

// residUP4Datapath is the real UP4 datapath without its connection handling.
type residUP4Datapath struct {
	*UP4
}

func (d residUP4Datapath) IsConnected(*net.IP) bool { return true }

// SendMsgToUPF repeats (*UP4).SendMsgToUPF without the tryConnect() at its top (it would dial the switch).
func (d residUP4Datapath) SendMsgToUPF(method upfMsgType, all PacketForwardingRules, updated PacketForwardingRules) uint8 {
	up4 := d.UP4

	up4.stateMu.Lock()
	defer up4.stateMu.Unlock()

	var err error

	switch method {
	case upfMsgTypeAdd:
		err = up4.sendCreate(all, updated)
	case upfMsgTypeMod:
		err = up4.sendUpdate(all, updated)
	case upfMsgTypeDel:
		err = up4.sendDelete(all)
	default:
		return ie.CauseRequestRejected
	}

	if err != nil {
		return ie.CauseRequestRejected
	}

	return ie.CauseRequestAccepted
}

func newResidUP4(t *testing.T) (*UP4, *residP4Stub) {
	t.Helper()

	// the P4Info of the real pipeline, read the way (*P4rtClient).SetForwardingPipelineConfig does
	p4infoBytes, err := os.ReadFile("../conf/p4/bin/p4info.txt")
	if err != nil {
		t.Fatalf("cannot read the P4Info: %v", err)
	}

	p4info := &p4ConfigV1.P4Info{}
	if err = proto.UnmarshalText(string(p4infoBytes), p4info); err != nil {
		t.Fatalf("cannot parse the P4Info: %v", err)
	}

	stub := &residP4Stub{}

	// what SetUpfInfo and clearDatapathState set up
	up4 := &UP4{
		conf:           P4rtcInfo{AccessIP: residAccessIP + "/32", DefaultTC: 3},
		accessIP:       &net.IPNet{IP: net.ParseIP(residAccessIP).To4(), Mask: net.CIDRMask(32, 32)},
		ueIPPool:       MustParseStrIP(residPool),
		deviceID:       1,
		p4client:       &P4rtClient{client: stub, deviceID: 1, P4Info: p4info},
		p4RtTranslator: newP4RtTranslator(p4info),
		meters:         make(map[meterID]meter),
		ueAddrToFSEID:  make(map[uint32]uint64),
		fseidToUEAddr:  make(map[uint64]uint32),
		counters:       make([]counter, 2),
	}
	up4.initTunnelPeerIDs()
	up4.initApplicationIDs()
	up4.initAllCounters()
	up4.initMetersPools()

	if len(up4.tunnelPeerIDsPool) != maxGTPTunnelPeerIDs {
		t.Fatalf("test setup: %d free tunnel peer IDs, want %d", len(up4.tunnelPeerIDsPool), maxGTPTunnelPeerIDs)
	}

	return up4, stub
}

const (
	residGNBA = "198.19.0.1"
	residGNBB = "198.19.0.2"
	residUEIP = "10.250.0.1"
)

// rules of a usual session on UP4: uplink and downlink PDR, the downlink FAR tunnels to the gNB
func residUP4Rules(gnb string, dlTEID uint32) []*ie.IE {
	return []*ie.IE{
		ie.NewCreatePDR(
			ie.NewPDRID(residUplinkPDR),
			ie.NewPrecedence(100),
			ie.NewPDI(
				ie.NewSourceInterface(ie.SrcInterfaceAccess),
				ie.NewFTEID(0x01 /* V4 */, 55, net.ParseIP(residAccessIP), nil, 0),
			),
			ie.NewOuterHeaderRemoval(0, 0),
			ie.NewFARID(residUplinkFAR),
		),
		ie.NewCreatePDR(
			ie.NewPDRID(residDownlkPDR),
			ie.NewPrecedence(100),
			ie.NewPDI(
				ie.NewSourceInterface(ie.SrcInterfaceCore),
				ie.NewUEIPAddress(0x02 /* V4 */, residUEIP, "", 0, 0),
			),
			ie.NewFARID(residDownlkFAR),
		),
		ie.NewCreateFAR(
			ie.NewFARID(residUplinkFAR),
			ie.NewApplyAction(ActionForward),
			ie.NewForwardingParameters(ie.NewDestinationInterface(ie.DstInterfaceCore)),
		),
		ie.NewCreateFAR(
			ie.NewFARID(residDownlkFAR),
			ie.NewApplyAction(ActionForward),
			ie.NewForwardingParameters(
				ie.NewDestinationInterface(ie.DstInterfaceAccess),
				ie.NewOuterHeaderCreation(0x0100 /* GTP-U/UDP/IPv4 */, dlTEID, gnb, "", 0, 0, 0),
			),
		),
	}
}

func residPeers(up4 *UP4) (registered int, free int, desc []string) {
	up4.tunnelPeerMu.Lock()
	defer up4.tunnelPeerMu.Unlock()

	for params, peer := range up4.tunnelPeerIDs {
		desc = append(desc, "gNB "+int2ip(params.tunnelIP4Dst).String()+" -> "+peer.String())
	}

	return len(up4.tunnelPeerIDs), len(up4.tunnelPeerIDsPool), desc
}

func checkResidNoTunnelPeerLeft(t *testing.T, up4 *UP4) {
	t.Helper()

	registered, free, desc := residPeers(up4)
	if registered != 0 {
		t.Errorf("LEAK: %d GTP tunnel peer(s) still registered in UP4 with no session left: %v", registered, desc)
	}

	if free != maxGTPTunnelPeerIDs {
		t.Errorf("LEAK: %d of %d tunnel peer IDs are free with no session left", free, maxGTPTunnelPeerIDs)
	}
}

// control: without a modification the tunnel peer goes away with the session
func TestResidual_R4_Control_UP4_EstablishDelete(t *testing.T) {
	up4, stub := newResidUP4(t)
	e := newResidEnv(t, residUP4Datapath{up4})

	s := e.establish(t, 1000, residUP4Rules(residGNBA, 100)...)

	registered, free, desc := residPeers(up4)
	if registered != 1 || free != maxGTPTunnelPeerIDs-1 {
		t.Fatalf("test setup: after the establishment %d peers registered (want 1), %d IDs free (want %d): %v",
			registered, free, maxGTPTunnelPeerIDs-1, desc)
	}

	e.remove(t, s)
	t.Logf("%d P4Runtime writes reached the switch stub", len(stub.writes))
	checkResidNoTunnelPeerLeft(t, up4)
}

func TestResidual_R4_UP4_UpdateFARMovesTunnelThenDelete(t *testing.T) {
	up4, stub := newResidUP4(t)
	e := newResidEnv(t, residUP4Datapath{up4})

	s := e.establish(t, 1000, residUP4Rules(residGNBA, 100)...)

	registered, free, desc := residPeers(up4)
	if registered != 1 || free != maxGTPTunnelPeerIDs-1 {
		t.Fatalf("test setup: after the establishment %d peers registered (want 1), %d IDs free (want %d): %v",
			registered, free, maxGTPTunnelPeerIDs-1, desc)
	}

	t.Logf("after the establishment: %v", desc)

	// handover: the downlink tunnel now ends at gNB B
	cause := e.modify(t, s,
		ie.NewUpdateFAR(
			ie.NewFARID(residDownlkFAR),
			ie.NewApplyAction(ActionForward),
			ie.NewUpdateForwardingParameters(
				ie.NewDestinationInterface(ie.DstInterfaceAccess),
				ie.NewOuterHeaderCreation(0x0100 /* GTP-U/UDP/IPv4 */, 200, residGNBB, "", 0, 0, 0),
			),
		),
	)
	if cause != ie.CauseRequestAccepted {
		t.Fatalf("test setup: Session Modification with Update FAR refused: cause %d", cause)
	}

	_, _, desc = residPeers(up4)
	t.Logf("after the Update FAR (tunnel moved to gNB %s): %v", residGNBB, desc)

	e.remove(t, s)

	t.Logf("%d P4Runtime writes reached the switch stub", len(stub.writes))
	checkResidNoTunnelPeerLeft(t, up4)
}
