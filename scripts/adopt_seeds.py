#!/usr/bin/env python3
"""Copies confirmed seeds from /tmp/seeds/<prop>/<k> into /verif/seeded/<prop>-<k>/ with meta.json."""
import json, os, shutil, sys, glob, re
SRC = sys.argv[1] if len(sys.argv) > 1 else "/tmp/seeds"
OFFSET = int(sys.argv[2]) if len(sys.argv) > 2 else 0
for d in sorted(glob.glob(SRC + "/C*/[0-9]")):
    cj = os.path.join(d, "confirm.json")
    if not os.path.exists(cj): continue
    c = json.load(open(cj))
    if not c.get("confirmed"): continue
    prop = os.path.basename(os.path.dirname(d)); k = str(int(os.path.basename(d)) + OFFSET)
    dst = f"/verif/seeded/{prop}-{k}"
    if os.path.exists(os.path.join(dst, "meta.json")): continue
    os.makedirs(dst, exist_ok=True)
    for f in os.listdir(d):
        if f in ("confirm.json",): continue
        shutil.copy(os.path.join(d, f), os.path.join(dst, f))
    readme = open(os.path.join(d, "README.md")).read() if os.path.exists(os.path.join(d, "README.md")) else ""
    files = sorted(set(re.findall(r"^\+\+\+ b/(\S+)", open(os.path.join(d, "patch.diff")).read(), re.M)))
    meta = {
        "property": prop,
        "seed": f"{prop}-{k}",
        "files_touched": files,
        "origin": "fresh sub-agent given only the property text and its own scratch worktree of /repo",
        "needs_to_manifest": "see README.md (section on the condition needed)",
        "readme_excerpt": readme[:1500],
        "base_commit": os.popen("git -C /repo rev-parse --short HEAD").read().strip(),
        "what_i_ran": {
            "script": "scripts/confirm_seed.py (scratch worktree under /tmp/wt, removed afterwards)",
            "clean_tree_demo_passes": c["clean_demo_pass"],
            "patch_applies": c["patch_applies"],
            "changed_tree_builds_and_existing_suite_passes": c["changed_suite_pass"],
            "changed_tree_demo_fails": c["changed_demo_fails"],
            "suite_cmd": "go build ./... && go test -vet=off -count=1 ./pfcpiface/... ./pkg/... ./cmd/... ./internal/...",
        },
        "detected_by": None,
    }
    json.dump(meta, open(os.path.join(dst, "meta.json"), "w"), indent=1)
    print("adopted", dst)
