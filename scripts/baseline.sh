#!/bin/bash
# Runs the repository's pinned test suite with hooks off (there are none): same command as
# /root/.vp/BASELINE.json, module list = repo root.
set -o pipefail
cd "${1:-/repo}" || exit 2
unset GOWORK GOTOOLCHAIN GOSUMDB
export GOFLAGS=-mod=mod GOPROXY=off
go test -mod=mod -vet=off -count=1 -timeout 25m ./... 2>&1 | tail -40
