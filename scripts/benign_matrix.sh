#!/bin/bash
# benign_matrix.sh <dir>: every behaviour-preserving change under <dir>/Cnn/k/patch.diff × every check.
# Anything but silence is a false alarm (DETECTED) or an over-tight anchor (UNDECIDED) of the checker.
dir=${1:-/tmp/benign}
props="$(/verif/bin/upfcheck -list | tr '\n' ' ') C20"
ls $dir/C*/[0-9]*/patch.diff 2>/dev/null | xargs -P 14 -I{} bash -c '
  f={}; id=$(echo $f | sed "s#.*/\(C[0-9]*\)/\([0-9]*\)/patch.diff#\1-b\2#")
  MUT_LINES=3 /verif/scripts/mut.sh $f '"$props"' 2>&1 | grep -v "^KNOWN\|^ *KNOWN" | grep -E "^(DETECTED|UNDECIDED|PATCH-FAILED)|rule=|construct:|UNDECIDED property" | sed "s#^#$id #"
'
