#!/bin/bash
export V=${VERIF:-/verif}; export VERIF=$V
# benign_matrix.sh [dir]: every behaviour-preserving change under <dir> (default $V/benign; layout
# <dir>/<id>/patch.diff or <dir>/Cnn/k/patch.diff) × every check. Anything but silence is a false alarm
# (DETECTED) or an over-tight anchor (UNDECIDED) of the checker.
dir=${1:-$V/benign}
props="$($V/bin/upfcheck -list | tr '\n' ' ') C20"
n=$(ls $dir/*/patch.diff $dir/C*/[0-9]*/patch.diff 2>/dev/null | wc -l)
echo "# $n patches × $(echo $props | wc -w) checks" >&2
ls $dir/*/patch.diff $dir/C*/[0-9]*/patch.diff 2>/dev/null | xargs -P 14 -I{} bash -c '
  f={}; id=$(echo $f | sed "s#.*/\(C[0-9]*\)/\([0-9]*\)/patch.diff#\1-b\2#; s#.*/\([^/]*\)/patch.diff#\1#")
  MUT_LINES=3 $V/scripts/mut.sh $f '"$props"' 2>&1 | grep -v "^KNOWN\|^ *KNOWN" | grep -E "^(DETECTED|UNDECIDED|PATCH-FAILED)|rule=|construct:|UNDECIDED property" | sed "s#^#$id #"
'
