#!/usr/bin/env python3
"""confirm_seed.py <seed_dir> <worktree>: confirms a seeded change myself.
clean tree: demo passes. changed tree: builds, existing tests pass, demo fails.
Writes <seed_dir>/confirm.json. The worktree is left clean."""
import json, os, re, subprocess, sys, shutil, glob
seed, wt = sys.argv[1], sys.argv[2]
env = dict(os.environ, GOFLAGS="-mod=mod", GOPROXY="off")
for k in ("GOWORK", "GOTOOLCHAIN", "GOSUMDB"): env.pop(k, None)
def run(cmd, cwd=wt, timeout=1500):
    p = subprocess.run(cmd, cwd=cwd, env=env, shell=True, capture_output=True, text=True, timeout=timeout)
    return p.returncode, p.stdout + p.stderr
def clean():
    run("git checkout -q -- . && git clean -fdq")
readme = open(os.path.join(seed, "README.md")).read() if os.path.exists(os.path.join(seed, "README.md")) else ""
demos = [f for f in glob.glob(os.path.join(seed, "*")) if re.search(r"(_test\.go|test_.*\.py|.*_test\.py)$", os.path.basename(f))]
res = {"seed": seed, "demos": [os.path.basename(d) for d in demos]}
if not demos:
    res["error"] = "no demo"; json.dump(res, open(os.path.join(seed, "confirm.json"), "w"), indent=1); print(res); sys.exit(1)
demos.sort(key=lambda d: (os.path.basename(d) not in ("demo_test.go", "demo_test.py"), os.path.basename(d)))
demo = demos[0]
is_go = demo.endswith(".go")
if is_go:
    src = open(demo).read()
    pkg = re.search(r"^package (\w+)", src, re.M).group(1)
    if pkg == "main": dest_dir = "cmd/p4info_code_gen"
    elif pkg == "pfcpiface": dest_dir = "pfcpiface"
    elif pkg == "metrics": dest_dir = "pfcpiface/metrics"
    elif pkg == "utils": dest_dir = "pkg/utils"
    elif pkg == "p4constants": dest_dir = "internal/p4constants"
    else: dest_dir = "pfcpiface"
    tests = re.findall(r"^func (Test\w+)\(", src, re.M)
    runre = "^(" + "|".join(tests) + ")$"
    dest = os.path.join(wt, dest_dir, "zz_seed_" + os.path.basename(demo))
    demo_cmd = f"go test -vet=off -count=1 -run '{runre}' ./{dest_dir}/"
else:
    dest = os.path.join(wt, "conf", os.path.basename(demo))
    demo_cmd = f"python3 -m unittest -v conf.{os.path.basename(demo)[:-3]}"
suite_cmd = "go build ./... && go test -vet=off -count=1 ./pfcpiface/... ./pkg/... ./cmd/... ./internal/..."
clean()
# clean tree + demo
shutil.copy(demo, dest)
rc, out = run(demo_cmd)
res["clean_demo_pass"] = rc == 0
res["clean_demo_tail"] = out[-600:]
clean()
# changed tree
rc, out = run(f"git apply --whitespace=nowarn {os.path.join(seed,'patch.diff')}")
res["patch_applies"] = rc == 0
if rc == 0:
    rc, out = run(suite_cmd)
    res["changed_suite_pass"] = rc == 0
    res["changed_suite_tail"] = out[-600:]
    shutil.copy(demo, dest)
    rc, out = run(demo_cmd)
    res["changed_demo_fails"] = rc != 0
    res["changed_demo_tail"] = out[-1200:]
clean()
res["confirmed"] = bool(res.get("clean_demo_pass") and res.get("patch_applies") and res.get("changed_suite_pass") and res.get("changed_demo_fails"))
json.dump(res, open(os.path.join(seed, "confirm.json"), "w"), indent=1)
print(seed, "CONFIRMED" if res["confirmed"] else "NOT-CONFIRMED", {k: v for k, v in res.items() if isinstance(v, bool)})
