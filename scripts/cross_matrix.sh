#!/bin/bash
export V=${VERIF:-/verif}; export VERIF=$V
# cross_matrix.sh [outfile]: every seeded change × every check (16 in parallel). One line per pair.
out=${1:-/tmp/cross_matrix.txt}
cd $V/seeded
props="$($V/bin/upfcheck -list | tr '\n' ' ') C20"
ls -d */ | sed 's#/##' | xargs -P 14 -I{} bash -c '
  d={}; p=$d/patch.diff; [ -f $d/patch.rebased.diff ] && p=$d/patch.rebased.diff
  MUT_LINES=1 $V/scripts/mut.sh $p '"$props"' 2>&1 | grep -E "^(DETECTED|MISSED|UNDECIDED|PATCH-FAILED)|rule=" | sed "s#^#$d #" 
' > $out
grep -c . $out
