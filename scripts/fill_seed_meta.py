#!/usr/bin/env python3
"""fill_seed_meta.py <cross_matrix.txt>: records in every /verif/seeded/<id>/meta.json which checks
detect the seeded change on the current (repaired) tree, and what the thorough tier expects."""
import json, os, re, sys
ROOT = os.path.dirname(os.path.dirname(os.path.abspath(__file__)))
mat = {}
last = None
for line in open(sys.argv[1]):
    m = re.match(r"(\S+) (DETECTED|MISSED|UNDECIDED)\s+(C\d\d)", line)
    if m:
        last = (m.group(1), m.group(3))
        mat[last] = {"verdict": m.group(2), "rule": ""}
        continue
    m = re.match(r"(\S+)\s+rule=(\S+) at (\S+) in (.*)", line)
    if m and last and last[0] == m.group(1) and not mat[last]["rule"]:
        mat[last]["rule"] = f"{m.group(2)} at {m.group(3)} in {m.group(4).strip()}"
# seeds whose own property is knowingly not alarmed on, with the reason
NOTES = {
    "C17-1": ("not-decided", "Ternary strategy: cover exactness of the bit arithmetic is declared not decided (not on the production path); see DESIGN.md C17"),
    "C17-17": ("not-decided", "Ternary strategy again (a shortcut for blocks starting at port 0 rounds the block size up): cover exactness of the bit arithmetic is declared not decided, the strategy has no production caller; see DESIGN.md C17"),
    "C10-1": ("silent", "after fix d513425 (Shutdown idempotent) the change no longer violates C10; it violates C12 (time-out verdict) and is detected there"),
    "C11-1": ("silent", "after fix 26aac09 every caller holds stateMu around the whole function, the check-then-act window is closed; the rule fires on the pre-fix tree (verified) — replaced by hand-made C11-4"),
}
for d in sorted(os.listdir(os.path.join(ROOT, "seeded"))):
    if not os.path.isdir(os.path.join(ROOT, "seeded", d)):
        continue
    p = os.path.join(ROOT, "seeded", d, "meta.json")
    prop = d.split("-")[0]
    meta = json.load(open(p)) if os.path.exists(p) else {"property": prop, "seed": d, "origin": "hand-made by the checker's author after a repair made the sub-agent's seed moot (see README.md)"}
    det = sorted(pp for (s, pp), v in mat.items() if s == d and v["verdict"] == "DETECTED")
    meta["detected_by"] = [{"property": pp, "rule": mat[(d, pp)]["rule"]} for pp in det]
    exp = {pp: "detected" for pp in det}
    if d in NOTES:
        exp[prop] = NOTES[d][0]
        meta["note"] = NOTES[d][1]
    elif prop not in exp:
        exp[prop] = "MISSED-UNEXPECTED"
    meta["thorough_expectation"] = exp
    meta["patch_used"] = "patch.rebased.diff" if os.path.exists(os.path.join(ROOT, "seeded", d, "patch.rebased.diff")) else "patch.diff"
    json.dump(meta, open(p, "w"), indent=1)
    print(d, exp)

# the tree these expectations belong to (the thorough tier enforces the replay only on this tree)
import hashlib, subprocess
tree = subprocess.run([os.path.join(ROOT, "bin", "upfcheck"), "-tree-hash", "-repo", "/repo"], capture_output=True, text=True).stdout.strip()
rc = hashlib.sha256(open("/repo/conf/route_control.py", "rb").read()).hexdigest()
head = subprocess.run(["git", "-C", "/repo", "rev-parse", "--short", "HEAD"], capture_output=True, text=True).stdout.strip()
json.dump({"tree": tree, "route_control.py": rc, "repo_head": head}, open(os.path.join(ROOT, "seeded", "BASE_TREE.json"), "w"), indent=1)
print("base tree", tree, head)
