#!/usr/bin/env python3
"""Regenerates /verif/MANIFEST.json from the table below. A property is claimed only when
the checker has a rule set for it (./bin/upfcheck -list)."""
import json, os, subprocess, sys

ROOT = os.path.dirname(os.path.dirname(os.path.abspath(__file__)))

# id -> (decided clauses, not decided, technique, design section)
P = {
 "C01": ("panic/exit/blocking obligations (index, slice, nil dereference of absent IEs, of error values on the success path, of pointer map elements read without the presence bit and of nullable repo fields, unchecked type assertion, Fatal/panic/os.Exit, blocking channel operation) on every repo function reachable from the PFCP receive path, each discharged by a dominating guard, an interval/difference-bound argument, a who-writes fact, a callee post-condition or a library post-condition; drop-or-answer shape of the dispatcher; the reader goroutine ends only on timeout/closed socket and dispatches every datagram it read; Prometheus label values are peer-free or sanitised",
         "that a later valid request is processed normally (state semantics); panics inside third-party libraries beyond the frozen post-condition and panicking-API tables",
         "obligation/discharge over SSA: available-load value numbering + difference-bound (ABCD-style) prover + nil/typestate dominance + provenance of label values", "4 C01"),
 "C02": ("request→response constructor pairing over the dispatch switch, sequence-number and SEID provenance of every response constructor, who-may-send, accepted-establishment content, non-zero UP SEID guard, responses never answered",
         "counting responses over whole histories (follows from the per-dispatch structure)",
         "CFG path rules + provenance slices on SSA", "4 C02"),
 "C03": ("add/delete key agreement of the BESS writers, writer↔up4.bess schema agreement (arity and widths), slot provenance against the statement's mapping, priority antitone and non-wrapping, FAR action decision table, start-up wipe ⊇ written modules, datapath writes dominated by session/association checks, store written before accept",
         "packet-level 'iff' semantics of the installed image",
         "sibling diff + provenance slices + cross-artifact (up4.bess) agreement + dominance", "4 C03"),
 "C04": ("UP4 builder decision tables (drop/buffer/forward), match-key and action-param provenance against the statement's mapping, shared-object key agreement (tunnel peers, applications), start-up clear ⊇ written tables, interfaces initialised after clear",
         "reference-count arithmetic over histories",
         "decision-table extraction + provenance slices + sibling agreement on SSA", "4 C04"),
 "C05": ("acquire/release pairing on every session-ending path and every failing establishment path for the resource classes (gauge unit, store record, UE IP, TEID, datapath entries, UP4 cells/ids); aliasing of the stored rule slices",
         "'N attach/detach cycles never exhaust a pool' as an arithmetic fact (a consequence of pairing)",
         "typestate (acquire/release) on the SSA CFG with call-graph reachability", "4 C05"),
 "C06": ("must-lockset on the pool state (exclusive for writes, own object) with balanced methods, atomic sections (no check-then-act across an unlock), encapsulation, constructor shape (ordered complete enumeration of private copies, size check dominates the [1:len-1] trim), sticky/refusal/dequeue/enqueue provenance of the two operations, allocation-trigger table over all 256 flag values, who may release (session-ending sites only, by SEID on the establishment abort) and release only after an accepted datapath delete",
         "in-range / exclusive / conserved as invariants over the runtime contents of the two containers (they follow from the rules by an induction the checker does not mechanise); the carry arithmetic of inc()",
         "must-lockset dataflow + atomic-section dependence + who-may-call + decision table by exhaustive evaluation", "4 C06"),
 "C07": ("must-lockset and atomic sections on the TEID generator, interval invariant of the cursor (least interval closed under the writers, uint32 semantics) and TEID \u2208 [1,2^32-1] without wrap under it, Allocate marks/returns exactly the offset found free and fails only after a full cycle, matching decode in FreeID/IsAllocated, generator and used-set never replaced, who may free a TEID and only after an accepted delete, SEID candidate \u2260 0 and looked up in the association's store before use with a bounded loop and tested result, reported TEID = programmed TEID, every PDR-creating handler serves the CHOOSE flag",
         "uniqueness across the whole history as such (follows from the rules by induction on the used-set, not mechanised); quality of the random source",
         "must-lockset + interval abstract interpretation of one field + dominance + provenance + who-may-call", "4 C07"),
 "C08": ("parser crash obligations incl. narrowing conversions in the tokenizer, no filter field written on any path that returns an error, only errBadFilterDesc tolerated by parsePDR, every tokenizer error reaches the result, core/access orientation table and its mirror, port work-around, PFD-backed filters copied verbatim under the direction predicate with the first match deciding, UE-address pre-fill, 'any'/'assigned' rewrite table, PFD table reset-then-fill with roll-back on every rejecting exit and a fresh map, per-application description lists",
         "that the filter means the text for every string of the grammar (round trip over an infinite language); net.ParseCIDR/strconv semantics",
         "CFG path rules + provenance tables + sibling (mirror) diff + obligation/discharge", "4 C08"),
 "C09": ("rate factor ×125 with exact division by constant-factor extraction (BESS cir/pir, UP4 pir), gate decision table per direction, burst floor takes the configured value of the same name (sibling agreement), QFI→TC provenance, qosLevel routes the table in add and delete",
         "which QER MarkSessionQer labels (an algorithm over list shapes)",
         "constant-factor extraction + decision tables + sibling agreement on SSA", "4 C09"),
 "C10": ("channel typestate (close at most once incl. path-sensitive re-reachability, no send on a channel that is closed anywhere, range needs a close elsewhere/before) with an embedded self-test fixture, idempotent teardown through the connection's sync.Once with its five effects on every path and in order, no blocking wait in the teardown's synchronous tree, the goroutine that drains the completion channel never tears down itself, every trigger reaches Shutdown, forgetting (address received = key deleted, own store per connection, delete key = store key, no zombie after a first-message release), stop sequence (cancel \u2192 stop accepting \u2192 bounded join \u2192 datapath Exit \u2192 close(done)), record removed only after an accepted delete, session records added only where teardown cannot miss them",
         "exactly-once under every interleaving beyond these typestate/ordering rules; bounded time beyond 'every stop-path wait has a timer alternative'",
         "channel typestate + must-pass/dominance on the SSA CFG + goroutine-context call graph", "4 C10"),
 "C11": ("static lockset (Eraser's discipline) over goroutine contexts for every field path of the objects shared between goroutines, with structurally checked exemptions (fresh object, start-up code, constructor extent, pre-publication, fork ordering, per-connection confinement); balanced locking of every function; atomic sections for the shared UP4 objects; BESS fan-out (per-call completion channel, one goroutine per rule, at most one completion per worker path, join count); math/rand generators per connection; add/remove reference-key agreement of shared UP4 objects",
         "linearizability of compound operations beyond the atomic-section rule; instances of a struct type are not distinguished except by the per-instance root table; start-up races; the HTTP handlers among themselves",
         "must-lockset dataflow (intra- and interprocedural entry locksets) over goroutine contexts + sibling agreement", "4 C11"),
 "C12": ("retransmission loop bound (1+N sends, same message object), pending-request store/delete pairing and key agreement, dead-only-after-timeout dominance, single writer of the local recovery time stamp and its provenance in every response, accept\u21d4connected decision table with 'connected' meaning channel state READY, feature-bit table, every datagram from an unknown peer creates a connection and is dispatched, every consumed heartbeat reset resets the ticker",
         "real-time spacing, loss patterns",
         "loop-shape rule + provenance + decision tables + must-pass on the SSA CFG", "4 C12"),
 "C13": ("send reachable only with a stored session, a downlink PDR and the NOCP bit of the FAR that PDR points to (no other deciding condition), message content provenance (fresh sequence number from a counter every access to which holds its lock, DLDR only, stored remote SEID kept current by the modification handler, PDR id), rate-limiter decision table with re-arm from time.Now(), one notifier per listener, dispatch of the received F-SEID, listener crash obligations",
         "'at most one per interval' as a statement about wall-clock time; whether the datapath produces a report",
         "dominance + provenance + path-enumerated decision table + lockset on one counter", "4 C13"),
 "C14": ("end marker built from the stored (old) FAR, guarded by the flag and the id match, at most one per matching FAR and exactly one all the way to the sender queue (no marker-less exit of addEndMarker except on a serialisation error, plain send of every list element), sole callers, flag written on every successful parse from the SNDEM bit only, per-element scratch FAR, emission only after the successful update and only when enabled, packet field mapping, fresh serialize buffer",
         "the serialised bytes (gopacket behaviour)",
         "provenance + dominance + must-pass + who-may-call", "4 C14"),
 "C15": ("pool purity, release only after the last fallible write that still references the id, release-on-error releases exactly what this call allocated, every failing P4 write reaches a rejection (status filter: only OK/ALREADY_EXISTS tolerated, empty list is a failure), ownership: application references are given up only on the DELETE path and up4.p4client (whose absence makes tryConnect refill every pool) is only assigned a successfully created client",
         "multi-fault sequences as such (rules are per-site and fault-position independent)",
         "provenance (pool pairing) + dominance/ordering + error-propagation on SSA", "4 C15"),
 "C16": ("every table/field/match-kind/width/action/param-set/priority/index obligation of every builder path against the shipped P4Info; constants \u2194 P4Info; generator determinism; every PDR that reaches a priority-carrying builder was verified (in the orchestrator or by every non-DELETE caller over the whole list)",
         "values whose bound is a stated assumption of the property (QFI \u2264 63, slice \u2264 15, TC \u2264 3) are recorded as assumptions, not proved",
         "builder-path enumeration against the parsed P4Info (cross-artifact agreement) + interval argument for priority", "4 C16"),
 "C17": ("range classification is a partition (exhaustive evaluation over the order classes of low/high/0/65535), refusal returns no rules, Cartesian-product dispatch table, exact-expansion loop shape with a 32-bit induction variable, width check without wrap, inverted ranges rejected before construction, bounded unsigned port parse, every conversion error refuses the pair, the BESS writers install exactly the expansion of the PDR's two ranges and nothing after a refusal",
         "cover exactness of the Ternary strategy (bit arithmetic; not on the production path)",
         "predicate abstraction over order classes + decision table + induction-variable shape + error propagation", "4 C17"),
 "C18": ("loader ordering (validated value = returned value, zero Conf on errors), default table with the documented constants and guards, validator facts (parser \u00d7 field \u00d7 condition) derived from validateConf's CFG, mode set \u2286 conf/ports.py, consumer\u2286validator for every process-ending parse, loader crash obligations (incl. method calls on nil errors), structure of the comment pattern from its regexp/syntax tree, shipped samples agree with the struct's JSON kinds and the validator's facts",
         "behaviour of encoding/json, regexp and time.ParseDuration themselves; 'every sample loads' beyond the cross-artifact agreement; NewIPPool's own size limit",
         "CFG ordering rules + fact derivation by cut-reachability + regexp syntax-tree inspection + cross-artifact agreement", "4 C18"),
 "C19": ("exactly one HTTP response on every path with the right status class, datapath programming only on the decoded PUT/POST path, whole-document decode into a per-request value, unit\u2192factor table by constant-factor extraction, field provenance from the posted document into the BESS and UP4 meter arguments",
         "arithmetic at the 63-bit edge; what the datapath does with the values",
         "path enumeration on the SSA CFG + constant-factor extraction + provenance slices", "4 C19"),
 "C20": ("module-name agreement under one normal form (helpers inlined), pending routes kept per next hop as a collection and all installed on resolution with no early exit, delete path cleans every container the add path fills and never leaves before the neighbor-cache branch, every entry into state-changing methods under the lock, gate counter monotonic and consumed exactly with a new neighbor entry, link_modules argument binding, reference count \u00b11 with destroy/forget exactly at zero, MAC present before programming",
         "the refinement between an arbitrary netlink event history and the module graph; duplicate RTM_NEWROUTE events; the SIGHUP reconfigure path",
         "Python ast rules: normal-form comparison, container read/write sets, lexical lock regions, argument binding", "4 C20"),
}

# clauses added in round 6 (DESIGN.md §15); appended to the decided text of the property
R6 = {
 "C01": "no ticker interval computed as a difference with elapsed time; a completion channel workers send on is never closed by the waiter",
 "C02": "every accepting path has stored the session; the first datagram of an unknown peer is dispatched whatever its type; a new connection is dialled to the datagram's source address",
 "C03": "gate table per direction of the QER entries; a range of exactly 100 ports is still expanded",
 "C04": "the sessions entry of every PDR is in its batch; meters programmed and reset in the array of their kind; distinct SEID sequences per association; users of a shared object counted after the caller's own reference was dropped",
 "C05": "a TEID is freed under the mark it was allocated under; the create write is given the session's own rule set; every BESS module command is a message of that module's kind",
 "C06": "the allocation mark is set exactly where the pool allocated; the pool is keyed by the UP SEID at every parse site; DeallocIP at most once per session end",
 "C07": "the reported UP F-SEID is session.localSEID",
 "C08": "every Create/Update PDR is parsed into a value of its own; endpoint.ports is written by the port parser only; a new PFD entry owns its list",
 "C09": "the stored PDR shares its QER list with the PDR that is programmed; the session label is written once, outside the search loop",
 "C10": "the reader handles each message itself; every session-ending site removes the datapath entries and releases what the session holds; only the reader's read deadline decides that a peer went silent",
 "C11": "crash obligations of every method of a shared object on the receive path; an ending association returns what it holds in the shared pools; worker completion channels never closed by the waiter",
 "C13": "the limiter's key (UP SEID) is drawn from the connection's generator and tested against the store; the session copy the report handler reads is complete; apply-action flags are the IE's first octet",
 "C14": "a deadline on the end-marker socket is armed per write; the SNDEM bit alone decides the flag",
 "C15": "a request one of whose datapath writes was rejected is never accepted and the store is written after both writes; a removed rule is handed on as a copy; users counted after the own reference was dropped",
 "C16": "only values that came out of a pool go back into it; a meter entry is written to the array its cell belongs to",
 "C17": "users of a shared application entry counted after the own reference was dropped; width limit admits exactly 100 ports",
 "C18": "every path of removeComments is the pattern's ReplaceAll of the input",
 "C19": "every caller of addSliceMeter joins as many completions as it starts workers",
 "C20": "the waiting route is appended before anything that can leave _probe_addr; no guard of the message parser refuses a prefix length in 0..32",
}

# clauses added in round 7 (DESIGN.md §16)
R7 = {
 "C01": "helper goroutines started only when their socket could be opened; nil results of repo functions tested before use; balanced locking",
 "C02": "no mutex re-acquired while held; the release response is sent before the shutdown; only a response-type message reaches the waiter of an own request",
 "C03": "module command kinds; the release helpers do not edit the session; the session QER is moved, not swapped",
 "C04": "complete session copies; a delete names its rules; ID pools filled from 1",
 "C05": "no self-deadlock; gauge unit counted before an abort; a delete names its rules; releases read only",
 "C06": "no self-deadlock on the pool lock; CreatePDR only appends; every parsePDR gets the pool",
 "C07": "a session record is removed only on an accepted delete; establishment replies are built by the paired constructor per request",
 "C08": "one completion per worker; ID 0 not pooled; users compared with 0",
 "C09": "removed rules handed on as copies; the session QER is moved, not swapped",
 "C10": "no self-deadlock; a worker reports on every non-failing path; nil results tested before use",
 "C11": "fresh serialize buffer per End Marker; no lock held across a loop iteration; workers always report",
 "C12": "the two timers are used exactly as parsed",
 "C13": "the UE-address mapping survives a failed delete; the store is written after the datapath write; nothing is written into the parsed rule after its copy was stored; no lock held across an iteration of the DDN listener",
 "C14": "every datapath error is a rejection; the UP4 sender reads the current P4Runtime client per packet",
 "C15": "SEID entropy; DeallocIP once; every tunnelled FAR registers with its peer",
 "C16": "slice meter index; map keys sorted by a total order",
 "C17": "translator byte encoding; the expansion is only read and every rule of it is processed",
 "C18": "zap Log*(level) with a non-constant level is an exit obligation; every configured peer is parsed",
 "C19": "no self-deadlock in the slice handler; crash obligations over the REST handler's call tree",
 "C20": "caches created once; bootstrap dump not narrower than the handler; BESS asked before the bookkeeping",
}

def main():
    built = set(subprocess.run([os.path.join(ROOT, "bin/upfcheck"), "-list"], capture_output=True, text=True).stdout.split())
    py_built = set()
    if os.path.exists(os.path.join(ROOT, "checker/py/route_rules.py")):
        py_built.add("C20")
    checks, na = [], []
    for pid in sorted(P):
        decided, notdec, tech, ref = P[pid]
        if pid in R6:
            decided += "; " + R6[pid]
        if pid in R7:
            decided += "; " + R7[pid]
        if pid in built or pid in py_built:
            cmd = f"./bin/upfcheck -prop {pid}"
            if pid in py_built and pid not in built:
                cmd = f"python3 checker/py/route_rules.py --prop {pid}"
            dash = "--" if cmd.startswith("python3") else "-"
            checks.append({
                "property_id": pid,
                "quick_cmd": cmd + f" {dash}tier quick",
                "thorough_cmd": cmd + f" {dash}tier thorough",
                "evidence_file": f"evidence/{pid}.json",
                "replay_cmd_template": "cat {path}",
                "engine": "upfcheck",
                "level_claimed": {
                    "category": "other",
                    "text": "Static analysis of /repo's current source (no execution). Decided: " + decided + ". Every rule instance is an obligation that is either discharged by a fact visible in the code on all paths or reported with file:line, function and construct.",
                    "design_ref": "DESIGN.md §" + ref,
                },
                "level_note": "NOT decided by this check: " + notdec + ". Trusted: go/types, go/ssa (x/tools v0.50.0), the repo's go toolchain for loading, the library post-condition table; no reflection/unsafe modelling.",
                "technique": "static analysis: " + tech,
            })
        else:
            na.append({"property_id": pid, "reason": "static rule set not built yet in this round (design in DESIGN.md §" + ref + "); nothing is claimed for it"})
    m = {
        "version": 1,
        "setup_cmd": "./setup.sh",
        "hooks": {
            "guard": "verif",
            "enable": "none needed: the checker reads /repo's source as it is; no hook commits exist",
            "baseline_off_cmd": "./scripts/baseline.sh /repo",
            "source_commits": [],
            "add_only": True,
        },
        "engines": [{
            "name": "upfcheck",
            "path": "checker/",
            "serves_properties": sorted(c["property_id"] for c in checks),
            "kind_free_text": "repo-specific static analyser: go/packages + go/ssa (repo-scoped), CFG path rules, provenance slices, decision-table extraction, lockset, obligation/discharge with a difference-bound prover, P4Info / up4.bess cross-checks; Python ast rules for conf/route_control.py",
        }],
        "checks": checks,
        "not_applicable": na,
        "notes": "All claims are at level 'other': structural necessary conditions decided from source on every run; the behavioural remainder of each property is listed in level_note and DESIGN.md §0. Exit codes: 0 holds (KNOWN-FINDING lines possible), 1 VIOLATION, 2 UNDECIDED (checker could not analyse; never a VIOLATION line).",
    }
    with open(os.path.join(ROOT, "MANIFEST.json"), "w") as f:
        json.dump(m, f, indent=1)
        f.write("\n")
    print("claimed:", [c["property_id"] for c in checks], "not_applicable:", [n["property_id"] for n in na])

if __name__ == "__main__":
    main()
