#!/usr/bin/env python3
"""Regenerates /verif/MANIFEST.json from the table below. A property is claimed only when
the checker has a rule set for it (./bin/upfcheck -list)."""
import json, os, subprocess, sys

ROOT = os.path.dirname(os.path.dirname(os.path.abspath(__file__)))

# id -> (decided clauses, not decided, technique, design section)
P = {
 "C01": ("panic/exit/blocking obligations (index, slice, nil dereference of absent IEs, unchecked type assertion, Fatal/panic/os.Exit, blocking channel operation) on every repo function reachable from the PFCP receive path, each discharged by a dominating guard, an interval/difference-bound argument, a who-writes fact or a library post-condition; drop-or-answer shape of the dispatcher",
         "that a later valid request is processed normally (state semantics); panics inside third-party libraries beyond the frozen post-condition table",
         "obligation/discharge over SSA: available-load value numbering + difference-bound (ABCD-style) prover + nil/typestate dominance", "4 C01"),
 "C02": ("request→response constructor pairing over the dispatch switch, sequence-number and SEID provenance of every response constructor, who-may-send, accepted-establishment content, non-zero UP SEID guard, responses never answered",
         "counting responses over whole histories (follows from the per-dispatch structure)",
         "CFG path rules + provenance slices on SSA", "4 C02"),
 "C03": ("add/delete key agreement of the BESS writers, writer↔up4.bess schema agreement (arity and widths), slot provenance against the statement's mapping, priority antitone and non-wrapping, FAR action decision table, start-up wipe ⊇ written modules, datapath writes dominated by session/association checks, store written before accept",
         "packet-level 'iff' semantics of the installed image",
         "sibling diff + provenance slices + cross-artifact (up4.bess) agreement + dominance", "4 C03"),
 "C04": ("UP4 builder decision tables (drop/buffer/forward), match-key and action-param provenance against the statement's mapping, shared-object key agreement (tunnel peers, applications), start-up clear ⊇ written tables, interfaces initialised after clear",
         "reference-count arithmetic over histories",
         "decision-table extraction + provenance slices + sibling agreement on SSA", "4 C04"),
 "C05": ("acquire/release pairing on every session-ending path and every failing establishment path for the resource classes (gauge unit, store record, UE IP, TEID, datapath entries, UP4 cells/ids); aliasing of the stored rule slices",
         "'N attach/detach cycles never exhaust a pool' as an arithmetic fact (a consequence of pairing)",
         "typestate (acquire/release) on the SSA CFG with call-graph reachability", "4 C05"),
 "C06": ("every access to the pool state holds the pool mutex (must-lockset), pool state is touched only by the pool's methods, the allocation-trigger predicate is satisfiable (constant-comparison contradiction rule), size check dominates the trim",
         "in-range / exclusive / sticky / conserved as data-structure invariants over runtime contents",
         "must-lockset dataflow + encapsulation (who-may-access) + bit-mask contradiction rule", "4 C06"),
 "C07": ("lockset on the TEID generator state, TEID non-zero and cursor-in-range by interval evaluation of Allocate/updateOffset from the constants, SEID candidate checked against the store before use with a bounded retry loop and tested result, reported TEID = programmed TEID (single-copy provenance)",
         "uniqueness across the whole history (needs the used-set invariant); non-zero SEID is reported under C02",
         "must-lockset + interval evaluation + dominance + provenance", "4 C07"),
 "C08": ("no store to the PDR's application filter on any path that returns the bad-filter error, only the bad-filter error is tolerated by parsePDR, core/access mirror symmetry of the orientation code, verbatim copy for PFD-backed filters with a direction predicate, PFD table reset-then-fill with rollback on every rejecting exit, parser panic obligations",
         "that the filter means the text (round trip over an infinite language)",
         "CFG path rules + sibling (mirror) diff + obligation/discharge", "4 C08"),
 "C09": ("rate factor ×125 with exact division by constant-factor extraction (BESS cir/pir, UP4 pir), gate decision table per direction, burst floor takes the configured value of the same name (sibling agreement), QFI→TC provenance, qosLevel routes the table in add and delete",
         "which QER MarkSessionQer labels (an algorithm over list shapes)",
         "constant-factor extraction + decision tables + sibling agreement on SSA", "4 C09"),
 "C10": ("close-at-most-once of the association's shutdown channel, only-the-closer-sends on a closed channel, range-over-channel has a preceding close, the stop path joins associations before Exit, Shutdown forgets the association on every path",
         "exactly-once under every interleaving beyond these typestate rules; bounded time",
         "channel typestate + goroutine-context call graph", "4 C10"),
 "C11": ("static lockset (Eraser-style): every field of the datapath objects shared by per-association goroutines that is written after construction has a common mutex over all its accesses; per-request BESS fan-out is joined on every worker path",
         "linearizability of compound operations",
         "must-lockset over goroutine contexts", "4 C11"),
 "C12": ("retransmission loop bound (1+N sends, same message object), pending-request store/delete pairing and key agreement, dead-only-after-timeout dominance, single writer of the local recovery time stamp and its provenance in every response, accept⇔connected decision table, feature-bit table",
         "real-time spacing, loss patterns",
         "loop-shape rule + provenance + decision tables on SSA", "4 C12"),
 "C13": ("report construction provenance (CP SEID, fresh sequence number, downlink PDR id), send dominated by session lookup / notify-flag / pdr-found checks, rate-limiter decision table (first report passes), listener panic obligations",
         "once-per-interval in wall-clock time",
         "provenance + dominance + decision table", "4 C13"),
 "C14": ("end marker built from the stored (old) FAR not the new one, guarded by the flag and the id match, at most one per matching FAR, sole caller, flag parsing (SNDEM bit, reset, update-only), emission only after the successful update and only when enabled, packet field mapping",
         "the serialised bytes (gopacket behaviour)",
         "provenance + dominance + who-may-call", "4 C14"),
 "C15": ("pool purity (a value released into pool P was allocated from P), release only after the last fallible write that still references the id, release-on-error releases exactly what this call allocated, every failing P4 write reaches a rejection",
         "multi-fault sequences as such (rules are per-site and fault-position independent)",
         "provenance (pool pairing) + dominance/ordering + error-propagation on SSA", "4 C15"),
 "C16": ("every table/field/match-kind/width/action/param-set/priority/index obligation of every builder path against the shipped P4Info; constants ↔ P4Info; generator determinism",
         "values whose bound is a stated assumption of the property (QFI ≤ 63, slice ≤ 15, TC ≤ 3) are recorded as assumptions, not proved",
         "builder-path enumeration against the parsed P4Info (cross-artifact agreement) + interval argument for priority", "4 C16"),
 "C17": ("range classification is a partition (exhaustive evaluation over the order classes of low/high/0/65535), refusal returns no rules, Cartesian-product dispatch table, exact-expansion loop shape, width check without wrap, inverted ranges rejected before construction",
         "cover exactness of the Ternary strategy (bit arithmetic; not on the production path)",
         "predicate abstraction over order classes + decision table + induction-variable shape", "4 C17"),
 "C18": ("defaults-then-validate on every success path with the documented constants, consumer⊆validator agreement for every fatal parse, mode decision table, loader panic obligations",
         "comment stripping on arbitrary bytes; that every shipped sample loads (needs execution; the pinned suite does it)",
         "CFG ordering rules + constant evaluation + sibling agreement", "4 C18"),
 "C19": ("exactly one HTTP response on every path with the right status class, datapath programming only on the decoded PUT/POST path, unit→factor table by constant-factor extraction, field provenance from the posted document into the BESS and UP4 meter arguments",
         "arithmetic at the 63-bit edge; what the datapath does with the values",
         "path enumeration on the SSA CFG + constant-factor extraction + provenance slices", "4 C19"),
 "C20": ("create/delete module-name agreement, pending-route container multiplicity per next hop, delete path cleans every container the add path fills, handlers only under the lock, gate counter monotonic",
         "the refinement between netlink event history and module graph",
         "Python ast rules (call-graph over self. methods, container read/write sets, sibling agreement)", "4 C20"),
}

def main():
    built = set(subprocess.run([os.path.join(ROOT, "bin/upfcheck"), "-list"], capture_output=True, text=True).stdout.split())
    py_built = set()
    if os.path.exists(os.path.join(ROOT, "checker/py/route_rules.py")):
        py_built.add("C20")
    checks, na = [], []
    for pid in sorted(P):
        decided, notdec, tech, ref = P[pid]
        if pid in built or pid in py_built:
            cmd = f"./bin/upfcheck -prop {pid}"
            if pid in py_built and pid not in built:
                cmd = f"python3 checker/py/route_rules.py --prop {pid}"
            dash = "--" if cmd.startswith("python3") else "-"
            checks.append({
                "property_id": pid,
                "quick_cmd": cmd + f" {dash}tier quick",
                "thorough_cmd": cmd + f" {dash}tier thorough",
                "evidence_file": f"evidence/{pid}.json",
                "replay_cmd_template": "cat {path}",
                "engine": "upfcheck",
                "level_claimed": {
                    "category": "other",
                    "text": "Static analysis of /repo's current source (no execution). Decided: " + decided + ". Every rule instance is an obligation that is either discharged by a fact visible in the code on all paths or reported with file:line, function and construct.",
                    "design_ref": "DESIGN.md §" + ref,
                },
                "level_note": "NOT decided by this check: " + notdec + ". Trusted: go/types, go/ssa (x/tools v0.50.0), the repo's go toolchain for loading, the library post-condition table; no reflection/unsafe modelling.",
                "technique": "static analysis: " + tech,
            })
        else:
            na.append({"property_id": pid, "reason": "static rule set not built yet in this round (design in DESIGN.md §" + ref + "); nothing is claimed for it"})
    m = {
        "version": 1,
        "setup_cmd": "./setup.sh",
        "hooks": {
            "guard": "verif",
            "enable": "none needed: the checker reads /repo's source as it is; no hook commits exist",
            "baseline_off_cmd": "./scripts/baseline.sh /repo",
            "source_commits": [],
            "add_only": True,
        },
        "engines": [{
            "name": "upfcheck",
            "path": "checker/",
            "serves_properties": sorted(c["property_id"] for c in checks),
            "kind_free_text": "repo-specific static analyser: go/packages + go/ssa (repo-scoped), CFG path rules, provenance slices, decision-table extraction, lockset, obligation/discharge with a difference-bound prover, P4Info / up4.bess cross-checks; Python ast rules for conf/route_control.py",
        }],
        "checks": checks,
        "not_applicable": na,
        "notes": "All claims are at level 'other': structural necessary conditions decided from source on every run; the behavioural remainder of each property is listed in level_note and DESIGN.md §0. Exit codes: 0 holds (KNOWN-FINDING lines possible), 1 VIOLATION, 2 UNDECIDED (checker could not analyse; never a VIOLATION line).",
    }
    with open(os.path.join(ROOT, "MANIFEST.json"), "w") as f:
        json.dump(m, f, indent=1)
        f.write("\n")
    print("claimed:", [c["property_id"] for c in checks], "not_applicable:", [n["property_id"] for n in na])

if __name__ == "__main__":
    main()
