#!/usr/bin/env python3
"""gen_round_prompts.py seeds|benign <prev-prompt-dir> <out-dir> <worktree-root>

Writes <out-dir>/Cnn.prompt.txt for a further round of seeded (breaking) or benign
(behaviour-preserving) changes. The prompt of the previous round (kept beside its results) is the
template; what is added is the list of what the earlier rounds already did, taken from the READMEs
on file under /verif/seeded and /verif/benign. The sub-agents get the property text only and never
read /verif; titles of earlier changes tell them what not to repeat, nothing about the rules.
"""
import glob, json, os, re, sys

kind, prev, out, wt = sys.argv[1:5]
props = [json.loads(l) for l in open('/verif/properties.jsonl')]
os.makedirs(out, exist_ok=True)


def first_line(path):
    try:
        for l in open(path, errors='replace'):
            l = l.strip()
            if l:
                return l.lstrip('# ').strip()
    except OSError:
        pass
    return ''


def num(d):
    return int(re.search(r'(\d+)$', d).group(1))


BENIGN_EXTRA = """This round, prefer edits that LOOK like the kind of change that could break the property but are in fact harmless — the tool is known to be silent on plain renames, moved functions, extracted helpers and guard-clause rewrites; we want to know whether it tells a harmless look-alike from a real defect. For example (only where the edit really is equivalent on all inputs, schedules and error paths):
  - hoist a variable declaration out of a loop AND reset it at the top of every iteration; or the reverse: move a declaration into the loop where no iteration reads the previous one's value,
  - replace `sync.Mutex` by `sync.RWMutex` and take `RLock` in functions that ONLY read the guarded fields (writers keep `Lock`),
  - pre-size a slice (`make([]T, 0, n)` + append) where `var s []T` + append was used; replace `append` in a loop by indexed stores into a slice made with the exact length,
  - copy a struct into a local, change the local, and store it back exactly where the in-place update happened; or take a pointer to an element and update through it where an indexed update was used,
  - move a statement across others that neither read nor write anything it touches; compute a value earlier and use it later where nothing in between can change it,
  - reorder the `case`s of a switch whose cases are disjoint; split one `case a, b:` into two cases with the same body; replace `if a { if b { … } }` by `if a && b { … }`,
  - turn a method into a function that takes the former receiver as its first parameter (or the reverse), add a parameter that every call site passes the same constant for, pass a value the callee used to compute itself,
  - replace a two-value map read + presence test by an equivalent form (`if v, ok := m[k]; ok` <-> `v, ok := m[k]; if !ok { … }`), replace `len(m) == 0` tests by equivalent ones,
  - introduce a named boolean for a condition and test the boolean; negate a condition and swap the branches; replace `x == false` by `!x`,
  - add a field that is set but never read for control flow (a debug counter, a timestamp), add log statements and metrics in error branches, wrap an error with more context where callers only test it for nil,
  - replace a `for { select { … } }` loop's `case` bodies by calls to small named methods; give a goroutine's function literal a name,
  - Python: replace a `for … else` by a flag variable, a `try/except KeyError` by an `in` test where equivalent, `dict.pop(k, None)` by a guarded `del`, a list comprehension by a loop.
"""

SEED_EXTRA = """This time look where earlier rounds did not: behaviour that depends on a configuration switch that is off by default (enable_end_marker, enable_hbTimer, enable_ue_ip_alloc, enable_p4rt, gtpu path monitoring, slice metering, log level); what differs between the BESS and the UP4 datapath for the same request; the SECOND request of a kind on a session (second modification, second deletion, re-establishment with the same SEID after a deletion, a retransmitted request with the same sequence number); requests whose IEs come in an unusual but legal order or are repeated; the start-up, reconnect and SIGHUP/reconfigure paths; what happens at the boundary of a limit (MaxItems, pool sizes, 255/256 IDs, 16-bit and 32-bit counters wrapping, the last address of a pool, a /31 or /32 pool); error returns of library calls that are normally nil (marshal errors, dial errors, context cancellation, closed sockets); values that are copied (structs, slices, maps) where one copy is later modified; log/metrics code that runs on the hot path and can block or panic; defaults that differ between two places that should agree.
"""

for p in props:
    pid = p['id']
    tpl = open(os.path.join(prev, pid + '.prompt.txt')).read()
    prev_wt = re.search(r'scratch git worktree of the repository at (\S+)/' + pid, tpl).group(1)
    prev_out = re.search(r'inside the output directory (\S+)/' + pid, tpl).group(1)
    tpl = tpl.replace(prev_wt + '/', wt + '/').replace(prev_out + '/', out + '/')
    if kind == 'seeds':
        dirs = sorted(glob.glob('/verif/seeded/%s-*' % pid), key=num)
        titles = []
        for d in dirs:
            t = first_line(os.path.join(d, 'README.md'))
            if t:
                titles.append('  - ' + t[:220])
        head, rest = tpl.split('NOTE:', 1)
        _, tail = rest.split('YOUR TASK:', 1)
        note = ('NOTE: %d seeded changes for this property already exist (six rounds); do NOT repeat these ideas, '
                'find different mechanisms and different code sites:\n' % len(titles)) + '\n'.join(titles) + '\n' + \
            "Also note that the tree you got contains a number of recent bug fixes (commit messages starting with 'fix:' in `git log`); do not simply revert one of those fixes.\n" + \
            SEED_EXTRA + '\n\n'
        text = head + note + 'YOUR TASK:' + tail
    else:
        dirs = sorted(glob.glob('/verif/benign/%s-b*' % pid), key=num)
        titles = []
        for d in dirs:
            t = first_line(os.path.join(d, 'README.md'))
            if t:
                titles.append('  - ' + t[:200])
        head, rest = tpl.split('NOTE:', 1)
        _, tail = rest.split('Requirements for each change', 1)
        try:
            recent = json.load(open('/verif/scripts/prompts/recent_rule_functions.json')).get(pid, [])
        except (OSError, ValueError):
            recent = []
        where = ''
        if recent:
            where = ('This round, place your edits IN these functions (they are the ones most recently put under scrutiny), one '
                     'edit per function where possible, each edit changing the statements that do the real work there (the '
                     'condition, the loop, the call and its arguments, the error handling), not just a log line:\n  - ' + '\n  - '.join(recent) + '\n')
        note = ('NOTE: %d harmless edits for this property already exist (four rounds); do NOT repeat these, use DIFFERENT kinds '
                'of edit:\n' % len(titles)) + '\n'.join(titles) + '\n' + where + BENIGN_EXTRA + '\n'
        text = head + note + 'Requirements for each change' + tail
    open(os.path.join(out, pid + '.prompt.txt'), 'w').write(text)
    print(pid, len(text))
