#!/bin/bash
export V=${VERIF:-/verif}; export VERIF=$V
# mut.sh <patch> <prop>... : apply a patch to a scratch copy of /repo (never to /repo
# itself), run the given properties' checks against the copy, delete the copy.
# Prints one line per property: DETECTED / MISSED / UNDECIDED.
# The copy lives at one of 16 fixed paths (taken under a file lock): the Go build cache keys compiled
# packages by directory, a random directory per run fills the disk with cache entries.
patch=$(readlink -f "$1"); shift
slot=""
while [ -z "$slot" ]; do
  for i in $(seq 0 15); do
    exec {fd}>/tmp/mutscratch.slot$i.lock
    if flock -n $fd; then slot=$i; break; fi
    exec {fd}>&-
  done
  [ -z "$slot" ] && sleep 0.2
done
scratch=/tmp/mutscratch.slot$slot
rm -rf "$scratch"; mkdir -p "$scratch"
trap 'rm -rf "$scratch"' EXIT
rsync -a --exclude .git /repo/ "$scratch/repo/"
if ! (cd "$scratch/repo" && git apply --whitespace=nowarn "$patch" 2>/dev/null || patch -p1 -s < "$patch"); then
  echo "PATCH-FAILED $patch"; exit 3
fi
for prop in "$@"; do
  if [ "$prop" = C20 ]; then
    out=$(python3 $V/checker/py/route_rules.py --prop C20 --repo "$scratch/repo" --verif $V --out "$scratch/ev" 2>&1); rc=$?
  else
    out=$($V/bin/upfcheck -prop "$prop" -repo "$scratch/repo" -verif $V -out "$scratch/ev" 2>&1); rc=$?
  fi
  case $rc in
    0) echo "MISSED    $prop  $(basename $(dirname $patch))/$(basename $patch)";;
    1) echo "DETECTED  $prop  $(basename $(dirname $patch))/$(basename $patch)"; echo "$out" | grep -A3 '^VIOLATION' | grep -v '^VIOLATION' | head -${MUT_LINES:-6} | sed 's/^/    /';;
    *) echo "UNDECIDED $prop  $(basename $(dirname $patch))/$(basename $patch)"; echo "$out" | tail -3 | sed 's/^/    /';;
  esac
done
