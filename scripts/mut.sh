#!/bin/bash
# mut.sh <patch> <prop>... : apply a patch to a scratch copy of /repo (never to /repo
# itself), run the given properties' checks against the copy, delete the copy.
# Prints one line per property: DETECTED / MISSED / UNDECIDED.
patch=$(readlink -f "$1"); shift
scratch=$(mktemp -d /tmp/mutscratch.XXXXXX)
trap 'rm -rf "$scratch"' EXIT
rsync -a --exclude .git /repo/ "$scratch/repo/"
if ! (cd "$scratch/repo" && git apply --whitespace=nowarn "$patch" 2>/dev/null || patch -p1 -s < "$patch"); then
  echo "PATCH-FAILED $patch"; exit 3
fi
for prop in "$@"; do
  if [ "$prop" = C20 ]; then
    out=$(python3 /verif/checker/py/route_rules.py --prop C20 --repo "$scratch/repo" --verif /verif --out "$scratch/ev" 2>&1); rc=$?
  else
    out=$(/verif/bin/upfcheck -prop "$prop" -repo "$scratch/repo" -verif /verif -out "$scratch/ev" 2>&1); rc=$?
  fi
  case $rc in
    0) echo "MISSED    $prop  $(basename $(dirname $patch))/$(basename $patch)";;
    1) echo "DETECTED  $prop  $(basename $(dirname $patch))/$(basename $patch)"; echo "$out" | grep -A3 '^VIOLATION' | grep -v '^VIOLATION' | head -${MUT_LINES:-6} | sed 's/^/    /';;
    *) echo "UNDECIDED $prop  $(basename $(dirname $patch))/$(basename $patch)"; echo "$out" | tail -3 | sed 's/^/    /';;
  esac
done
