#!/bin/bash
# rename_stress.sh [n] [seed]: n random declarations of pfcpiface (unexported functions, methods, fields,
# types, package variables) are renamed one at a time — identifier-level, in a scratch copy — and every
# Go check is run on the copy. Anything but silence is a false alarm of the checker (renaming keeps
# the behaviour). Copies that do not build (a method that implements a repo interface, a name clash)
# are skipped.
n=${1:-40}; seed=${2:-1}
props="$(/verif/bin/upfcheck -list | tr '\n' ' ')"
grep -P '^(F|N|T|V)\tpfcpiface' /verif/checker/known_symbols.txt | grep -v bess_pb | awk -F'\t' '$3 ~ /^[a-z]/ {print $1"|"$2"|"$3}' | shuf -n $n --random-source=<(yes $seed) | xargs -P 8 -I{} bash -c '
  spec="{}"; d=$(mktemp -d /tmp/rnstress.XXXXXX); trap "rm -rf $d" EXIT
  rsync -a --exclude .git /repo/ $d/repo/
  new="zz$(echo "$spec" | cut -d"|" -f3)Renamed"
  /verif/bin/upfcheck -rename-one "$spec|$new" -repo $d/repo >/dev/null 2>&1 || { echo "SKIP(rename) $spec"; exit 0; }
  (cd $d/repo && GOFLAGS=-mod=mod GOPROXY=off go build ./... >/dev/null 2>&1) || { echo "SKIP(build) $spec"; exit 0; }
  bad=""
  for p in '"$props"'; do
    /verif/bin/upfcheck -prop $p -repo $d/repo -verif /verif -out $d/ev >$d/out.txt 2>&1; rc=$?
    if [ $rc -ne 0 ]; then bad="$bad $p(rc=$rc: $(grep -E "^(UNDECIDED|  rule=)" $d/out.txt | head -1 | cut -c1-160))"; fi
  done
  if [ -n "$bad" ]; then echo "ALARM $spec:$bad"; else echo "silent $spec"; fi
'
