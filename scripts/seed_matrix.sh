#!/bin/bash
export V=${VERIF:-/verif}; export VERIF=$V
# seed_matrix.sh : for every seeded change under $V/seeded, apply it (rebased version if the
# original no longer applies to the repaired tree) to a scratch copy and run the check of its property.
cd $V/seeded
for d in */; do
  d=${d%/}
  prop=${d%%-*}
  p=$d/patch.diff
  [ -f $d/patch.rebased.diff ] && p=$d/patch.rebased.diff
  if [ $prop != C20 ] && ! $V/bin/upfcheck -list | grep -qw $prop; then echo "NO-CHECK  $prop  $d"; continue; fi
  MUT_LINES=2 $V/scripts/mut.sh $p $prop 2>&1 | grep -E "^(DETECTED|MISSED|UNDECIDED|PATCH-FAILED)|rule=" | tr '\n' ' ' ; echo
done
