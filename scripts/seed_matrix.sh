#!/bin/bash
# seed_matrix.sh : for every seeded change under /verif/seeded, apply it (rebased version if the
# original no longer applies to the repaired tree) to a scratch copy and run the check of its property.
cd /verif/seeded
for d in */; do
  d=${d%/}
  prop=${d%%-*}
  p=$d/patch.diff
  [ -f $d/patch.rebased.diff ] && p=$d/patch.rebased.diff
  if [ $prop != C20 ] && ! /verif/bin/upfcheck -list | grep -qw $prop; then echo "NO-CHECK  $prop  $d"; continue; fi
  MUT_LINES=2 /verif/scripts/mut.sh $p $prop 2>&1 | grep -E "^(DETECTED|MISSED|UNDECIDED|PATCH-FAILED)|rule=" | tr '\n' ' ' ; echo
done
