#!/usr/bin/env python3
"""synth_cross.py <own_matrix> <partial_cross> <out>: builds a cross-matrix file for fill_seed_meta.py when a
full scripts/cross_matrix.sh run (every seeded change x every check) does not fit into the time left.
Per seeded change: the verdict of its own property's check comes from <own_matrix> (a fresh run of every
seed against its own check); verdicts of the other checks come from <partial_cross> (the part of a fresh
cross matrix that completed) where present, else from the verdicts recorded in the seed's meta.json at the
last full run. A recorded cross verdict that no longer holds shows up as a replay mismatch in the thorough
tier (exit 2), never silently."""
import json, os, re, sys

own, partial, out = sys.argv[1:4]
ROOT = os.path.dirname(os.path.dirname(os.path.abspath(__file__)))
PROPS = ["C%02d" % i for i in range(1, 21)]


def parse(path):
    mat, last = {}, None
    for line in open(path, errors="replace"):
        m = re.match(r"(\S+) (DETECTED|MISSED|UNDECIDED|PATCH-FAILED)\s+(C\d\d)", line)
        if m:
            last = (m.group(1), m.group(3))
            mat[last] = [m.group(2), ""]
            continue
        m = re.match(r"(\S+)\s+rule=(.*)", line)
        if m and last and last[0] == m.group(1) and not mat[last][1]:
            mat[last][1] = "rule=" + m.group(2).strip()
    return mat


o, p = parse(own), parse(partial)
complete = {}
for (s, pp) in p:
    complete.setdefault(s, set()).add(pp)
with open(out, "w") as f:
    for d in sorted(os.listdir(os.path.join(ROOT, "seeded"))):
        mp = os.path.join(ROOT, "seeded", d, "meta.json")
        if not os.path.isdir(os.path.join(ROOT, "seeded", d)):
            continue
        meta = json.load(open(mp)) if os.path.exists(mp) else {}
        old = {x["property"]: x.get("rule", "") for x in (meta.get("detected_by") or [])}
        prop = d.split("-")[0]
        for pp in PROPS:
            if pp == prop and (d, pp) in o:
                v, rule = o[(d, pp)]
            elif len(complete.get(d, ())) == 20:
                v, rule = p[(d, pp)]
            elif pp in old:
                v, rule = "DETECTED", "rule=" + old[pp]
            else:
                v, rule = "MISSED", ""
            f.write("%s %-9s %s  x\n" % (d, v, pp))
            if rule:
                f.write("%s       %s\n" % (d, rule))
print("written", out)
