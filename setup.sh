#!/bin/bash
# Builds the checker offline from the vendored sources. Run once after a fresh restore.
set -e
cd "$(dirname "$0")/checker"
unset GOWORK
export GOFLAGS=-mod=vendor GOPROXY=off GOTOOLCHAIN=local GOSUMDB=off
mkdir -p ../bin
go1.26.8 build -o ../bin/upfcheck .
echo "built $(cd .. && pwd)/bin/upfcheck"
